// crate root of the shimmed scratch package (lib name `basic`, deps: shim crates `rand`, `chrono`)
#![allow(unused)]
macro_rules! format {
    ($($arg:tt)*) => { $crate::vshim::string::format(format_args!($($arg)*)) };
}
macro_rules! vec {
    () => { $crate::vshim::vec::Vec::new() };
    ($($x:expr),+ $(,)?) => {{ let mut v = $crate::vshim::vec::Vec::new(); $( v.push($x); )+ v }};
    ($elem:expr; $n:expr) => {{ let mut v = $crate::vshim::vec::Vec::new(); let e = $elem; let mut i = 0; while i < $n { v.push(e.clone()); i += 1; } v }};
}
pub mod vshim;
#[path = "../gen/lang/mod.rs"]
pub mod lang;
#[path = "../gen/mach/mod.rs"]
pub mod mach;
