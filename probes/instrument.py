#!/usr/bin/env python3
"""Design-phase probe (see DESIGN.md §2 E2, §3): copy <repo>/src/{lang,mach} to <dst>/, rewriting std
container paths to the bounded models and injecting the shim prelude. Usage: instrument.py /repo/src gen"""
import re, sys, os
src, dst = sys.argv[1], sys.argv[2]
PRELUDE = "#[allow(unused_imports)] use crate::vshim::prelude::{String, VToString, VStr, Vec};"
for sub in ("lang", "mach"):
    os.makedirs(os.path.join(dst, sub), exist_ok=True)
    for fn in sorted(os.listdir(os.path.join(src, sub))):
        if not fn.endswith(".rs"):
            continue
        text = open(os.path.join(src, sub, fn)).read()
        text = re.sub(r"\bstd::collections\b", "crate::vshim::collections", text)
        text = re.sub(r"\bstd::rc::Rc\b", "crate::vshim::rc::Rc", text)
        text = re.sub(r"\bstd::sync::Arc\b", "crate::vshim::sync::Arc", text)
        text = re.sub(r"\bstd::vec::", "crate::vshim::vec::", text)
        text = re.sub(r"\.to_string\(\)", ".vto_string()", text)
        text = re.sub(r"\.find\(", ".vfind(", text)
        text = text.replace("starts_with(&pattern)", "starts_with(pattern.as_str())")
        out, done, in_doc = [], False, False
        for ln in text.split("\n"):
            if not done:
                s = ln.strip()
                if in_doc:
                    if "*/" in s:
                        in_doc = False
                elif s.startswith("/*!"):
                    if "*/" not in s:
                        in_doc = True
                elif s.startswith("//!") or s == "" or s.startswith("#!["):
                    pass
                else:
                    out.append(PRELUDE)
                    done = True
            out.append(ln)
        open(os.path.join(dst, sub, fn), "w").write("\n".join(out))
