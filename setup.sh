#!/bin/bash
# Run once in /verif after a fresh restore, offline. Nothing needs to be pre-built: every check regenerates its scratch crate
# from /repo's working tree. This verifies that the tool chain is present and that the bounded container models still pass the
# repository's own tests (translator validation, ~1 minute).
set -e
export CARGO_NET_OFFLINE=true
cd "$(dirname "$0")"
cargo kani --version
python3 -c "import sys; sys.path.insert(0,'.'); from vlib import gen; print(len(gen.all_harnesses('real')), 'real-mode harnesses;', len(gen.all_harnesses('vshim')), 'vshim-mode harnesses')"
python3 vlib/validate.py
