"""Scratch-crate generator: the encoding is regenerated from /repo's *current working tree* on every run.

The scratch package (outside /repo, outside the committed part of /verif) contains
  gen/lang/*.rs, gen/mach/*.rs   verbatim copies of /repo/src/{lang,mach} (mode "real"), or the same copies with the
                                 std containers rewritten to the bounded models (mode "vshim");
                                 each copy gets ONE appended line that mounts an in-module harness file from
                                 /verif/harness/inmod (child modules can see private items of their parent);
  src/lib.rs                     crate root (generated), src -> /verif/harness/crate/src/{vk.rs,vshim/..} by #[path];
  Cargo.toml                     deps: environment stubs for rand / chrono.
Nothing in /repo is touched.
"""
import os, re, hashlib, shutil

VERIF = os.path.dirname(os.path.dirname(os.path.abspath(__file__)))
REPO = os.environ.get("VERIF_REPO", "/repo")
INMOD = os.path.join(VERIF, "harness", "inmod")
CRATE = os.path.join(VERIF, "harness", "crate", "src")
SHIMS = os.path.join(VERIF, "harness", "shims")

HARNESS_RE = re.compile(r"\b\w*harness!\(\s*([A-Za-z0-9_]+)\s*,")
META_RE = re.compile(r"^\s*//@\s*([a-z_]+)\s*:\s*(.*?)\s*$")


def parse_harness_file(path):
    """Returns list of dicts: name + //@ metadata lines that precede each harness.
    A harness is declared either by a `..harness!(name, ..)` macro line or, for macro-generated harnesses,
    by an explicit `//@ harness: name` line that closes its metadata block."""
    out, meta, seen = [], {}, set()
    for line in open(path):
        m = META_RE.match(line)
        if m:
            k, v = m.group(1), m.group(2)
            if k == "harness":
                d = dict(meta)
                d["name"] = v
                d["file"] = path
                out.append(d)
                seen.add(v)
                meta = {}
            elif k in meta and k in ("encodes", "bounds", "stubs", "outside"):
                meta[k] += "; " + v
            else:
                meta[k] = v
            continue
        h = HARNESS_RE.search(line)
        if h and h.group(1) not in seen:
            d = dict(meta)
            d["name"] = h.group(1)
            d["file"] = path
            out.append(d)
            seen.add(h.group(1))
            meta = {}
    return out


def inmod_files(mode):
    """in-module harness files for a mode: <mode>/<lang|mach>/<module>_h.rs"""
    res = []
    base = os.path.join(INMOD, mode)
    for sub in ("lang", "mach"):
        d = os.path.join(base, sub)
        if not os.path.isdir(d):
            continue
        for fn in sorted(os.listdir(d)):
            if fn.endswith("_h.rs"):
                res.append((sub, fn[:-5], os.path.join(d, fn)))
    return res


def all_harnesses(mode):
    hs = []
    for sub, module, path in inmod_files(mode):
        for h in parse_harness_file(path):
            h["mode"] = mode
            h["sub"] = sub
            h["module"] = module
            hs.append(h)
    return hs


VSHIM_PRELUDE = ("#[allow(unused_imports)] use crate::vshim::prelude::{String, VToString, VStr, Vec, BVec};")


def vshim_rewrite(text):
    text = re.sub(r"\bstd::collections\b", "crate::vshim::collections", text)
    text = re.sub(r"\bstd::rc::Rc\b", "crate::vshim::rc::Rc", text)
    text = re.sub(r"\bstd::sync::Arc\b", "crate::vshim::sync::Arc", text)
    text = re.sub(r"\bstd::vec::", "crate::vshim::vec::", text)
    # explicit one-byte tags on every enum: with Rust's niche layout the discriminant of e.g. `State` lives inside a field of its
    # largest variant and Kani reads it back through byte-level casts, which CBMC cannot constant-propagate (measured: a harness
    # that had set `state = Interrupt` still explored every arm of `match &self.state`). repr(u8) only fixes the layout.
    text = re.sub(r"(?m)^(\s*)((?:pub(?:\([a-z]+\))? )?enum \w+\s*\{)", r"\1#[repr(u8)] \2", text)
    # the inline Arc model copies the value on clone: the one stored type without Clone gets it
    text = text.replace("#[derive(Debug)]\npub struct Line {", "#[derive(Debug, Clone)]\npub struct Line {")
    # the recursive AST positions get the heap-indirect vector (an inline array would make the enums infinitely large)
    text = re.sub(r"\bVec<(Statement|Expression|Variable|ast::Statement|ast::Expression|ast::Variable)>", r"BVec<\1>", text)
    text = re.sub(r"\.to_string\(\)", ".vto_string()", text)
    text = re.sub(r"\.find\(", ".vfind(", text)
    text = re.sub(r'" "\.repeat\(', 'crate::vshim::string::repeat_blank(', text)
    text = re.sub(r"\.repeat\(", ".vrepeat(", text)
    text = text.replace("starts_with(&pattern)", "starts_with(pattern.as_str())")
    out, done, in_doc = [], False, False
    for ln in text.split("\n"):
        if not done:
            s = ln.strip()
            if in_doc:
                if "*/" in s:
                    in_doc = False
            elif s.startswith("/*!"):
                if "*/" not in s:
                    in_doc = True
            elif s.startswith("//!") or s == "" or s.startswith("#!["):
                pass
            else:
                out.append(VSHIM_PRELUDE)
                done = True
        out.append(ln)
    return "\n".join(out)


def write_if_changed(path, text):
    try:
        if open(path).read() == text:
            return False
    except FileNotFoundError:
        pass
    os.makedirs(os.path.dirname(path), exist_ok=True)
    with open(path, "w") as f:
        f.write(text)
    return True


DEFAULT_CAPS = {"STR": 8, "VEC": 4, "MAP": 4, "DEQ": 8, "BVEC": 2, "ARCSTR": 32}


def parse_caps(text):
    """'VEC=6 STR=16' -> dict merged over the defaults"""
    caps = dict(DEFAULT_CAPS)
    for tok in (text or "").replace(",", " ").split():
        k, v = tok.split("=")
        assert k in caps, "unknown capacity " + k
        caps[k] = int(v)
    return caps


def caps_key(text):
    caps = parse_caps(text)
    return "-".join("%s%d" % (k, caps[k]) for k in sorted(caps) if caps[k] != DEFAULT_CAPS[k]) or "default"


def generate(dst, mode, known=None, caps_text=None):
    """(Re)generate the scratch crate at dst from REPO's working tree. Returns dict with source digests."""
    assert mode in ("real", "vshim")
    src = os.path.join(REPO, "src")
    digests = {}
    mounts = {(sub, module): path for sub, module, path in inmod_files(mode)}
    dispatch = {"lang": [], "mach": []}
    wanted = set()
    for sub in ("lang", "mach"):
        for fn in sorted(os.listdir(os.path.join(src, sub))):
            if not fn.endswith(".rs"):
                continue
            text = open(os.path.join(src, sub, fn)).read()
            digests["src/%s/%s" % (sub, fn)] = hashlib.sha256(text.encode()).hexdigest()[:16]
            if mode == "vshim":
                text = vshim_rewrite(text)
            module = fn[:-3]
            if (sub, module) in mounts:
                hp = mounts[(sub, module)]
                text += ('\n#[cfg(any(kani, verif_replay))]\n#[path = "%s"]\npub(crate) mod verif_h;\n' % hp)
                for h in parse_harness_file(hp):
                    dispatch[sub].append((module, h["name"]))
            if module == "mod":
                # dispatcher for native replay lives in the parent so that it can name private children
                arms = "".join('        "%s" => %s::verif_h::%s(),\n' % (n, m, n) for m, n in
                               [(m, n) for (m, n) in dispatch_for(sub, mounts)])
                for (s_, m_) in sorted(mounts):
                    if s_ == sub:
                        text += "\n#[cfg(any(kani, verif_replay))]\npub(crate) use %s::verif_h as vh_%s;\n" % (m_, m_)
                text += ("\n#[cfg(verif_replay)]\npub fn verif_dispatch(name: &str) -> bool {\n    match name {\n%s        _ => return false,\n    }\n    true\n}\n" % arms)
            p = os.path.join(dst, "gen", sub, fn)
            wanted.add(p)
            write_if_changed(p, text)
    # remove stale generated files (a source file deleted in /repo)
    for sub in ("lang", "mach"):
        d = os.path.join(dst, "gen", sub)
        for fn in os.listdir(d):
            if os.path.join(d, fn) not in wanted:
                os.remove(os.path.join(d, fn))
    if mode == "vshim":
        caps = parse_caps(caps_text)
        write_if_changed(os.path.join(dst, "src", "caps_gen.rs"),
                         "// generated: bounded-container capacities for the Kani build of this scratch crate\n" +
                         "".join("pub const %s: usize = %d;\n" % (k, caps[k]) for k in sorted(caps)))
    root = ["#![allow(unused, clippy::all)]", "#![allow(unexpected_cfgs)]"]
    if mode == "vshim":
        root.append(open(os.path.join(CRATE, "vshim_macros.rs")).read())
        root.append('#[path = "%s"]\npub mod vshim;' % os.path.join(CRATE, "vshim", "mod.rs"))
    root.append('#[macro_use]\n#[path = "%s"]\npub mod vk;' % os.path.join(CRATE, "vk.rs"))
    # known findings: vk_known!(ID, cond) sites become exclusions only for ids listed as open in known_findings.json
    ids = set()
    for _, _, hp in inmod_files(mode):
        ids.update(re.findall(r"vk_known!\(\s*([A-Z0-9_]+)\s*,", open(hp).read()))
    open_ids = set(f["id"] for f in (known or {}).get("findings", []))
    kg = "//! generated from /verif/known_findings.json\n" + "".join(
        "pub const %s: bool = %s;\n" % (i, "true" if i in open_ids else "false") for i in sorted(ids))
    write_if_changed(os.path.join(dst, "src", "known_gen.rs"), kg)
    root.append("pub mod known_gen;")
    root.append('#[path = "../gen/lang/mod.rs"]\npub mod lang;')
    root.append('#[path = "../gen/mach/mod.rs"]\npub mod mach;')
    root.append("#[cfg(verif_replay)]\npub fn verif_dispatch(name: &str) -> bool { lang::verif_dispatch(name) || mach::verif_dispatch(name) }")
    write_if_changed(os.path.join(dst, "src", "lib.rs"), "\n".join(root) + "\n")
    write_if_changed(os.path.join(dst, "src", "main.rs"), open(os.path.join(CRATE, "replay_main.rs")).read())
    cargo = """[package]
name = "basic-verif-%s"
version = "0.0.0"
edition = "2021"
publish = false

[lib]
name = "basic"
path = "src/lib.rs"

[[bin]]
name = "replay"
path = "src/main.rs"

[dependencies]
rand = { path = "%s/rand" }
chrono = { path = "%s/chrono" }

[profile.dev]
debug = 0
overflow-checks = true
debug-assertions = true

[profile.release]
debug = 0
overflow-checks = false
debug-assertions = false

[lints.rust]
unexpected_cfgs = { level = "allow" }

[workspace]
""" % (mode, SHIMS, SHIMS)
    write_if_changed(os.path.join(dst, "Cargo.toml"), cargo)
    return digests


def dispatch_for(sub, mounts):
    res = []
    for (s, module), hp in sorted(mounts.items()):
        if s != sub:
            continue
        for h in parse_harness_file(hp):
            res.append((module, h["name"]))
    return res
