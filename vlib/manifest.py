#!/usr/bin/env python3
"""Regenerates /verif/MANIFEST.json from the table below (run: python3 vlib/manifest.py)."""
import json, os, sys

VERIF = os.path.dirname(os.path.dirname(os.path.abspath(__file__)))

# property id -> (claim text, level note, technique, design_ref)
CLAIMED = {
    "C08": (
        "Bounded model checking (Kani/CBMC) of the real operator/function/conversion code for ALL Integer operand values: "
        "+ - * \\ MOD over all 2^32 pairs, ^ over all bases and all exponents 0..32767, unary minus and ABS over all 2^16 values, "
        "float->Integer conversion over all f32 / f64 bit patterns; oracle = exact arithmetic in a wider type and the error kind. "
        "This is the full statement of the property; the solver verdict covers every input, which sampling cannot.",
        "Trusted: rustc, Kani 0.68 / CBMC 6.11 / CaDiCaL, the harness oracles (exact i32/i64 arithmetic). Source is copied from /repo's working tree "
        "into a scratch crate on every run with one appended `mod verif_h;` line per module; rand/chrono are environment stubs (not reached here).",
        "Kani/CBMC bounded model checking of the compiled source, symbolic operands, native replay of counterexamples",
        "§4 C08"),
}

NOT_APPLICABLE = {
}
SCRATCH_NOTE = ("Trusted: rustc, Kani 0.68 / CBMC 6.11 / CaDiCaL, the harness oracles (transcriptions of the manual). Source is copied from /repo's working tree "
                "into a scratch crate on every run with one appended `mod verif_h;` line per module; rand/chrono are environment stubs. ")
VSHIM_NOTE = ("Mode vshim additionally replaces String/Vec/VecDeque/HashMap/BTreeMap/Rc<str>/Arc by bounded array-backed models (capacities: 8-byte strings, "
              "6-element vectors, 4-entry maps under Kani), adds #[repr(u8)] to the enums and stubs core::mem::swap with a typed swap; the models are validated by "
              "running the repository's own 95 tests on the shimmed build (vlib/validate.py). Capacity overflow inside a harness is reported as inconclusive.")
CLAIMED.update({
    "C02": (
        "Bounded model checking of the real operator / conversion / numeric-function code over ALL operand bit patterns of every Integer/Single/Double type pair: "
        "result type follows the documented promotion, value equals the operation carried out at the promoted type (bit-exact), '/' on Integers is computed in Single, "
        "\\, MOD and the logical operators work on floor-converted 16-bit Integers (truth tables bit by bit), relational operators yield exactly 0 or -1, "
        "non-numeric operands raise TYPE MISMATCH. Claimed for these kernels only: precedence climbing, literal text->number and assignment are outside this check (DESIGN.md §4 C02).",
        SCRATCH_NOTE + "Float multiplication/division with both operands symbolic is checked per type pair (thorough tier); the quick tier checks * / \\ MOD with a symbolic "
        "left operand against two concrete right operands per type pair. powf/powi values are not asserted (libm).",
        "Kani/CBMC bounded model checking of the compiled source, symbolic operands of every numeric type pair, native replay of counterexamples",
        "§4 C02"),
    "C12": (
        "One-step obligations from an arbitrary bounded state, decided by the solver: Var::clear leaves no variable, no array dimension and all 26 DEFtype entries at the "
        "start-up default for every one of the 4^26 type tables; RUN compiles to exactly [CLEAR, JUMP n]. Any session history ends in one of these steps, so histories of any length are covered "
        "by the step; that the whole run after the reset equals a fresh run (composition with codegen/link) is outside the claim.",
        SCRATCH_NOTE + VSHIM_NOTE,
        "Kani/CBMC bounded model checking, inductive one-step obligation from a symbolic pre-state",
        "§4 C12"),
    "C13": (
        "One-step obligations of the interrupt/STOP/END/CONT bookkeeping from an arbitrary state (all 10 VM states, symbolic pc / entry address / stack contents): interrupt() saves exactly the "
        "interrupted state and position when inside the program, END/STOP save a continuation exactly when inside the program, CONT restores state and pc and consumes the continuation, a direct "
        "statement never disturbs a saved continuation, BREAK is reported once and leaves the VM stopped. execute()-level harnesses use a concrete control skeleton (which opcode, which position) with symbolic data. "
        "Quantum independence over compiled programs is outside this check.",
        SCRATCH_NOTE + VSHIM_NOTE,
        "Kani/CBMC bounded model checking, one VM step from a symbolic pre-state",
        "§4 C13"),
})

ALL = ["C%02d" % i for i in range(1, 21)]


def main():
    checks = []
    for pid in ALL:
        if pid not in CLAIMED:
            continue
        text, note, tech, ref = CLAIMED[pid]
        checks.append({
            "property_id": pid,
            "quick_cmd": "./check %s --tier quick" % pid,
            "thorough_cmd": "./check %s --tier thorough" % pid,
            "evidence_file": "/verif/evidence/%s.json" % pid,
            "replay_cmd_template": "./check %s --replay {path}" % pid,
            "engine": "kani-scratch",
            "level_claimed": {"category": "model_checking", "text": text, "design_ref": ref},
            "level_note": note,
            "technique": tech,
        })
    na = []
    for pid in ALL:
        if pid in CLAIMED:
            continue
        na.append({"property_id": pid, "reason": NOT_APPLICABLE.get(pid, "not yet claimed: no solver-based check registered for this property at this commit (see DESIGN.md §4)")})
    m = {
        "version": 1,
        "setup_cmd": "./setup.sh",
        "hooks": {
            "guard": "cfg(kani) / cfg(verif_replay) inside the scratch copy only",
            "enable": "no hooks are committed to /repo: every check copies /repo/src/{lang,mach} from the working tree into a scratch crate, "
                      "appends one `#[cfg(any(kani, verif_replay))] mod verif_h;` line per module (in-module harnesses from /verif/harness/inmod) and builds that",
            "baseline_off_cmd": "cd /repo && cargo test --workspace --no-fail-fast --offline",
            "source_commits": [],
            "add_only": True,
        },
        "engines": [
            {"name": "kani-scratch", "path": "/verif/vlib/run.py",
             "serves_properties": sorted(CLAIMED),
             "kind_free_text": "Kani 0.68 / CBMC 6.11 bounded model checking of a scratch crate regenerated from /repo's working tree "
                               "(mode real: std containers; mode vshim: bounded container models), native replay of every counterexample"},
        ],
        "checks": checks,
        "not_applicable": na,
        "notes": "exit 0 = all harnesses of the property verified; exit 1 + VIOLATION line = solver counterexample reproduced natively and not a listed known finding; "
                 "exit 2 = inconclusive (timeout, OOM, unwinding/capacity assertion, unreached cover, non-reproducing counterexample). "
                 "Fix commits in /repo are listed in known_findings.json under 'fixed'.",
    }
    json.dump(m, open(os.path.join(VERIF, "MANIFEST.json"), "w"), indent=1)
    print("MANIFEST.json: %d checks, %d not applicable" % (len(checks), len(na)))


if __name__ == "__main__":
    main()
