#!/usr/bin/env python3
"""Regenerates /verif/MANIFEST.json from the table below (run: python3 vlib/manifest.py)."""
import json, os, sys

VERIF = os.path.dirname(os.path.dirname(os.path.abspath(__file__)))

# property id -> (claim text, level note, technique, design_ref)
CLAIMED = {
    "C08": (
        "Bounded model checking (Kani/CBMC) of the real operator/function/conversion code for ALL Integer operand values: "
        "+ - * \\ MOD over all 2^32 pairs, ^ over all bases and all exponents 0..32767, unary minus and ABS over all 2^16 values, "
        "float->Integer conversion over all f32 / f64 bit patterns; oracle = exact arithmetic in a wider type and the error kind. "
        "This is the full statement of the property; the solver verdict covers every input, which sampling cannot.",
        "Trusted: rustc, Kani 0.68 / CBMC 6.11 / CaDiCaL, the harness oracles (exact i32/i64 arithmetic). Source is copied from /repo's working tree "
        "into a scratch crate on every run with one appended `mod verif_h;` line per module; rand/chrono are environment stubs (not reached here).",
        "Kani/CBMC bounded model checking of the compiled source, symbolic operands, native replay of counterexamples",
        "§4 C08"),
}

NOT_APPLICABLE = {
}
SCRATCH_NOTE = ("Trusted: rustc, Kani 0.68 / CBMC 6.11 / CaDiCaL, the harness oracles (transcriptions of the manual). Source is copied from /repo's working tree "
                "into a scratch crate on every run with one appended `mod verif_h;` line per module; rand/chrono are environment stubs. ")
VSHIM_NOTE = ("Mode vshim additionally replaces String/Vec/VecDeque/HashMap/BTreeMap/Rc<str>/Arc by bounded array-backed models (capacities: 8-byte strings, "
              "6-element vectors, 4-entry maps under Kani), adds #[repr(u8)] to the enums and stubs core::mem::swap with a typed swap; the models are validated by "
              "running the repository's own 95 tests on the shimmed build (vlib/validate.py). Capacity overflow inside a harness is reported as inconclusive.")
STEP = "Kani/CBMC bounded model checking of the compiled source: "
CLAIMED.update({
    "C01": (
        "Claimed for the VM / linker mechanisms that carry control flow, each as a solver-decided step: ON selection moves the program counter exactly as documented for every selector/count value; "
        "RETURN resumes after its GOSUB and discards loop frames abandoned inside the subroutine; fragments appended by the linker keep statement-local labels local and resolve branches by line number "
        "(line 0 included) wherever they are placed; sealing the program (Program::link) leaves no label or line at the address of the direct line. The composition text -> tokens -> AST -> fragments -> run over whole programs is outside this check (DESIGN.md §3).",
        SCRATCH_NOTE + VSHIM_NOTE, STEP + "one VM / linker step from a symbolic pre-state", "§4 C01"),
    "C02": (
        "Bounded model checking of the real operator / conversion / numeric-function code over ALL operand bit patterns of every Integer/Single/Double type pair: "
        "result type follows the documented promotion, value equals the operation carried out at the promoted type (bit-exact), '/' on Integers is computed in Single, "
        "\\, MOD and the logical operators work on floor-converted 16-bit Integers (truth tables bit by bit), relational operators yield exactly 0 or -1, "
        "non-numeric operands raise TYPE MISMATCH; both precedence tables equal the manual's 13 levels; undecorated literals of up to 4 characters are typed by the manual's rules; assignment converts to the variable's type or fails. "
        "Precedence climbing itself and literal text->number conversion are outside this check (DESIGN.md §4 C02).",
        SCRATCH_NOTE + VSHIM_NOTE + " Float multiplication/division with both operands symbolic is checked per type pair (thorough tier); the quick tier checks * / \\ MOD with a symbolic "
        "left operand against two concrete right operands per type pair. powf/powi values are not asserted (libm).",
        STEP + "symbolic operands of every numeric type pair, native replay of counterexamples", "§4 C02"),
    "C03": (
        "Claimed for the kernels: the numeric scanner returns (progress budget + unwinding assertion) for every 3- and 4-character input over its alphabet; one INPUT field conversion never panics for every field of up to 4 quote/blank/letter characters; "
        "BREAK is reported once and leaves the VM stopped; every arithmetic / conversion harness of C02 / C08 doubles as a no-panic check (Kani asserts overflow, division, casts). "
        "The full enter/execute protocol, the parser and the listing snapshot are outside this check.",
        SCRATCH_NOTE + VSHIM_NOTE, STEP + "symbolic character buffers / VM steps, termination by progress budget + unwinding assertions", "§4 C03"),
    "C04": (
        "Inductive one-step obligations on every path that mutates the listing, from an arbitrary bounded state: entering / replacing / deleting a line (present or absent), DELETE a-b, RENUM, NEW and loading "
        "each leave the recompilation flag set when the listing changed, never clear it, cancel the continuation and discard pending RETURN/NEXT frames; the next direct statement recompiles and nothing of a program whose listing was emptied stays in program memory. "
        "That the recompiled code equals a fresh compile of the same listing is the compiler composition and outside this check.",
        SCRATCH_NOTE + VSHIM_NOTE, STEP + "inductive one-step obligation from a symbolic pre-state", "§4 C04"),
    "C05": (
        "Claimed for numeric literals and relational operators: for every 3- and 4-character input over the numeric alphabet the listed text of the scanned literal, followed by the same rest of the line, re-scans to the same literal of the same type; "
        "all spellings of the two-character relational operators merge to one token. Identifiers / keyword crunching, strings, remarks and whole-line round trips are outside this check.",
        SCRATCH_NOTE + VSHIM_NOTE, STEP + "symbolic character buffer, scanner run twice", "§4 C05"),
    "C06": (
        "One-step obligations on the variable store: an unassigned variable reads as zero of the type given by its suffix or its first letter's DEFtype (all 4^26 tables); a store leaves a value of the variable's own type or fails with TYPE MISMATCH / OVERFLOW and stores nothing; "
        "a 2-dimensional array accepts exactly 0..bound in each dimension for every Integer subscript pair; an undeclared array has bound 10 and cannot be dimensioned afterwards; ERASE A removes array A's elements only (AB(..) and the scalar A keep their symbolic values). Aliasing between names in general (key construction) is outside this check.",
        SCRATCH_NOTE + VSHIM_NOTE, STEP + "symbolic DEFtype table, values and subscripts", "§4 C06"),
    "C07": (
        "Claimed for all numeric arguments on fixed strings: LEFT$, RIGHT$, MID$ (and INSTR in the thorough tier) on a string of 1-, 2- and 4-byte characters return exactly the documented characters for every Integer argument and raise errors for out-of-domain ones; "
        "the 255 limit counts characters (128 and 255 two-byte characters are storable, 256 ASCII characters are not); SPC / TAB lengths are exact. Symbolic strings, VAL/STR$ and MID$ assignment are outside this check.",
        SCRATCH_NOTE + "The 255-limit harnesses stub Var::update_val (map update) and RandomState::new; strings are concrete.", STEP + "symbolic numeric arguments on fixed multi-byte strings", "§4 C07"),
    "C09": (
        "Claimed for the data pointer and the data addresses of symbols: READ delivers the constant under the pointer and advances or raises OUT OF DATA; RESTORE to any data address, including the one just past the last constant, is honoured; "
        "for every distribution of 0..1 constants over three lines RESTORE n links to the first constant at or after line n. Type conversion on READ and whole programs are outside this check.",
        SCRATCH_NOTE + VSHIM_NOTE, STEP + "link-level programs with symbolic data layout", "§4 C09"),
    "C10": (
        "Claimed per mechanism: parameter renaming is injective over FNA / FNA$ / FNA! / FNA# / FNA% (parameters of different functions never share a variable); the call step checks arity, pushes the return address under the reversed arguments and reports UNDEFINED USER FUNCTION; "
        "DEF is ILLEGAL DIRECT outside a program; RETURN hands exactly the function result back. Evaluation of compiled function bodies is outside this check.",
        SCRATCH_NOTE + VSHIM_NOTE, STEP + "one VM step / renaming function with symbolic choices", "§4 C10"),
    "C11": (
        "Claimed for the column arithmetic: PRINT of a string leaves the column equal to the characters since the last newline for every string of up to 3 ASCII characters and every prior column; TAB(x), the zone advance TAB(-14), SPC and POS are exact for every column below 65536 and every Integer argument. "
        "Number formatting and print-list desugaring are outside this check.",
        SCRATCH_NOTE + VSHIM_NOTE + " str::repeat is modelled by a routine recording the requested length.", STEP + "symbolic column / argument / characters", "§4 C11"),
    "C12": (
        "One-step obligations from an arbitrary bounded state, decided by the solver: Var::clear leaves no variable, no array dimension and all 26 DEFtype entries at the "
        "start-up default for every one of the 4^26 type tables; RUN compiles to exactly [CLEAR, JUMP n]; NEW leaves an empty listing, TROFF, an empty stack and no continuation. Any session history ends in one of these steps; "
        "that the whole run after the reset equals a fresh run (composition with codegen/link) is outside the claim.",
        SCRATCH_NOTE + VSHIM_NOTE, STEP + "inductive one-step obligation from a symbolic pre-state", "§4 C12"),
    "C13": (
        "One-step obligations of the interrupt/STOP/END/CONT bookkeeping from an arbitrary state (all 10 VM states, symbolic pc / entry address / stack contents): interrupt() saves exactly the "
        "interrupted state and position when inside the program, END/STOP save a continuation exactly when inside the program, CONT restores state and pc and consumes the continuation, a direct "
        "statement never disturbs a saved continuation, BREAK is reported once and leaves the VM stopped. execute()-level harnesses use a concrete control skeleton (which opcode, which position) with symbolic data. "
        "A 4-instruction opcode program with symbolic operands ends in the same VM state whether run in one slice or two; slice independence over compiled programs is outside this check.",
        SCRATCH_NOTE + VSHIM_NOTE, STEP + "one VM step from a symbolic pre-state", "§4 C13"),
    "C14": (
        "RENUM's numbering for ALL argument triples over a 2-line listing with arbitrary numbers (fails and changes nothing, or keeps lines below old-start and numbers the rest new, new+step in order without collisions and within 65529), "
        "and the reference collector on directly built statements of every referencing form (GOTO, GOSUB, THEN n, ELSE n, ON..GOTO, ON..GOSUB, RESTORE n, RUN n, LIST/DELETE a-b) and on the operand-less forms, for arbitrary line numbers and change maps. "
        "The text splice and re-lex of a renumbered line are outside this check.",
        SCRATCH_NOTE + VSHIM_NOTE, STEP + "symbolic line numbers / RENUM arguments / change map", "§4 C14"),
    "C15": (
        "The program store from an arbitrary 3-line state n0<n1<n2: one LIST resumption step emits the lowest line inside an arbitrary inclusive range and leaves exactly the remaining lines to list (induction gives the whole listing), "
        "DELETE a-b removes exactly the lines inside, a numbered line inserts or replaces and nothing else changes, a bare number deletes; the bare DELETE is rejected. Operand parsing and line-number recognition in the lexer are outside this check.",
        SCRATCH_NOTE + VSHIM_NOTE + " The LIST step stubs <Line as Display>::fmt by a 2-character rendering of the line number.", STEP + "symbolic line numbers and ranges on a concrete-shape store", "§4 C15"),
    "C16": (
        "Claimed for the operator-merging passes: each of the 9 pairs of relational characters, adjacent and with any number of blanks between them, lexes to the documented single operator (or stays apart). "
        "Case folding of exponent letters is covered by the C05 fixpoint harnesses. Identifiers/keywords, GO TO, LET elision are outside this check.",
        SCRATCH_NOTE + VSHIM_NOTE + " One harness per character pair (the pair is concrete, the blank count symbolic).", STEP + "token vectors with symbolic blank count", "§4 C16"),
    "C17": (
        "Claimed for reply handling steps: a reply of up to 3 comma/quote/letter characters is split at commas outside quotes into exactly the fields the variables need or rejected atomically (REDO FROM START, nothing staged); "
        "a string field of up to 4 quote/blank/letter characters is stripped of surrounding blanks and of one pair of enclosing quotes. Numeric field conversion and the prompt are outside this check.",
        SCRATCH_NOTE + VSHIM_NOTE, STEP + "symbolic reply characters", "§4 C17"),
    "C18": (
        "Claimed for frames on the value stack: ON consumes exactly its two operands for every value; RETURN leaves nothing of the subroutine behind, also when a FOR loop was abandoned inside it, and hands back exactly one function result; "
        "RETURN without GOSUB is reported; the size-limited stack reports OUT OF MEMORY exactly past 65535 entries for every length (Stack<()>); a failing statement leaves the VM at the prompt with the stack discarded unless the program can be continued; storing zero frees the variable slot. Per-statement residue over compiled programs is outside this check.",
        SCRATCH_NOTE + VSHIM_NOTE, STEP + "one VM step from a symbolic stack", "§4 C18"),
    "C19": (
        "Claimed for the column machinery and the execution gate: a diagnostic's range is shifted by exactly the line-number prefix for every line number and range; parser columns count characters for every Unicode scalar value in a string literal; "
        "a jump into a program with recorded compile errors stops and reports them without executing an instruction, while direct code still runs (forward jump, and back jump to the first direct instruction). Which ranges the parser/linker attach to which construct is outside this check.",
        SCRATCH_NOTE + VSHIM_NOTE, STEP + "symbolic line numbers, columns and characters", "§4 C19"),
    "C20": (
        "Claimed for the linker's relocation: a fragment appended after 0 or 1 earlier local labels keeps its own labels local and its branch to line n (n symbolic, 0 included) resolves to line n's code defined later; "
        "RESTORE n resolves to the data address of line n for every data layout of three lines; a label or code-less line at the very end of the program stays in front of the direct line (Program::link). Direct-vs-program mode equivalence over compiled programs is outside this check.",
        SCRATCH_NOTE + VSHIM_NOTE, STEP + "link-level fragments with symbolic line numbers", "§4 C20"),
})

ALL = ["C%02d" % i for i in range(1, 21)]


def main():
    checks = []
    for pid in ALL:
        if pid not in CLAIMED:
            continue
        text, note, tech, ref = CLAIMED[pid]
        checks.append({
            "property_id": pid,
            "quick_cmd": "./check %s --tier quick" % pid,
            "thorough_cmd": "./check %s --tier thorough" % pid,
            "evidence_file": "/verif/evidence/%s.json" % pid,
            "replay_cmd_template": "./check %s --replay {path}" % pid,
            "engine": "kani-scratch",
            "level_claimed": {"category": "model_checking", "text": text, "design_ref": ref},
            "level_note": note,
            "technique": tech,
        })
    na = []
    for pid in ALL:
        if pid in CLAIMED:
            continue
        na.append({"property_id": pid, "reason": NOT_APPLICABLE.get(pid, "not yet claimed: no solver-based check registered for this property at this commit (see DESIGN.md §4)")})
    m = {
        "version": 1,
        "setup_cmd": "./setup.sh",
        "hooks": {
            "guard": "cfg(kani) / cfg(verif_replay) inside the scratch copy only",
            "enable": "no hooks are committed to /repo: every check copies /repo/src/{lang,mach} from the working tree into a scratch crate, "
                      "appends one `#[cfg(any(kani, verif_replay))] mod verif_h;` line per module (in-module harnesses from /verif/harness/inmod) and builds that",
            "baseline_off_cmd": "cd /repo && cargo test --workspace --no-fail-fast --offline",
            "source_commits": [],
            "add_only": True,
        },
        "engines": [
            {"name": "kani-scratch", "path": "/verif/vlib/run.py",
             "serves_properties": sorted(CLAIMED),
             "kind_free_text": "Kani 0.68 / CBMC 6.11 bounded model checking of a scratch crate regenerated from /repo's working tree "
                               "(mode real: std containers; mode vshim: bounded container models), native replay of every counterexample"},
        ],
        "checks": checks,
        "not_applicable": na,
        "notes": "exit 0 = all harnesses of the property verified; exit 1 + VIOLATION line = solver counterexample reproduced natively and not a listed known finding; "
                 "exit 2 = inconclusive (timeout, OOM, unwinding/capacity assertion, unreached cover, non-reproducing counterexample). "
                 "Fix commits in /repo are listed in known_findings.json under 'fixed'.",
    }
    json.dump(m, open(os.path.join(VERIF, "MANIFEST.json"), "w"), indent=1)
    print("MANIFEST.json: %d checks, %d not applicable" % (len(checks), len(na)))


if __name__ == "__main__":
    main()
