#!/usr/bin/env python3
"""Translator validation (Serval-style): run the repository's own test-suite natively against the vshim build.
The repo's tests/*.rs are copied into the scratch crate with the same textual rewrites as the sources.
Usage: python3 vlib/validate.py  -> exit 0 iff every repo test passes on the shimmed build."""
import os, re, shutil, subprocess, sys, tempfile
sys.path.insert(0, os.path.dirname(os.path.dirname(os.path.abspath(__file__))))
from vlib import gen


def prepare_tests(dst):
    tsrc = os.path.join(gen.REPO, "tests")
    tdst = os.path.join(dst, "tests")
    os.makedirs(os.path.join(tdst, "common"), exist_ok=True)
    n = 0
    for root, _, files in os.walk(tsrc):
        for fn in files:
            if not fn.endswith(".rs"):
                continue
            rel = os.path.relpath(os.path.join(root, fn), tsrc)
            text = open(os.path.join(root, fn)).read()
            if "common" not in rel:
                text = re.sub(r"\.to_string\(\)", ".vto_string()", text)
                text = re.sub(r"\bVec<(Statement|Expression|Variable)>", r"BVec<\1>", text)
            text = "#[allow(unused_imports)] use basic::vshim::prelude::{VToString, VStr, BVec};\n#[allow(unused_imports)] use basic::vec;\n" + text
            os.makedirs(os.path.dirname(os.path.join(tdst, rel)), exist_ok=True)
            open(os.path.join(tdst, rel), "w").write(text)
            n += 1
    return n


def run(keep=False):
    d = tempfile.mkdtemp(prefix="basic-verif-validate-")
    try:
        gen.generate(d, "vshim", {})
        prepare_tests(d)
        env = dict(os.environ)
        env.update({"CARGO_NET_OFFLINE": "true", "RUSTFLAGS": "-Awarnings", "RUST_MIN_STACK": "4294967296"})
        p = subprocess.run(["cargo", "test", "--offline", "--no-fail-fast", "--", "--test-threads", "4"], cwd=d, env=env,
                           stdout=subprocess.PIPE, stderr=subprocess.STDOUT, text=True)
        passed = sum(int(m.group(1)) for m in re.finditer(r"test result: \w+\. (\d+) passed", p.stdout))
        failed = sum(int(m.group(1)) for m in re.finditer(r"test result: \w+\. \d+ passed; (\d+) failed", p.stdout))
        fails = re.findall(r"^test (\S+) \.\.\. FAILED", p.stdout, re.M)
        ok = p.returncode == 0 and failed == 0 and passed > 0
        return ok, passed, failed, fails, p.stdout
    finally:
        if not keep:
            shutil.rmtree(d, ignore_errors=True)


if __name__ == "__main__":
    ok, passed, failed, fails, out = run()
    print("vshim validation: %d repo tests passed, %d failed on the shimmed build" % (passed, failed))
    for f in fails:
        print("  FAILED", f)
    if not ok:
        print(out[-6000:])
    sys.exit(0 if ok else 1)
