"""Check runner: regenerate the encoding from /repo, discharge every harness of a property with Kani/CBMC,
replay counterexamples natively, write evidence. See DESIGN.md §6.

exit 0  every harness of the property verified (all assertions, unwinding assertions, reachability covers)
exit 1  a counterexample was found by the solver AND reproduced natively AND is not a listed known finding
exit 2  inconclusive: build failure, timeout, out of memory, capacity/unwinding assertion, cover not reached,
        or a counterexample that does not reproduce natively (never reported as success, never as VIOLATION)
"""
import json, os, re, shutil, subprocess, sys, tempfile, time, hashlib
from concurrent.futures import ThreadPoolExecutor

from . import gen

VERIF = gen.VERIF
REPO = gen.REPO
EVID = os.path.join(VERIF, "evidence")
REPLAYS = os.path.join(VERIF, "replays")
KNOWN_FILE = os.path.join(VERIF, "known_findings.json")

ENV = dict(os.environ)
ENV.update({"CARGO_NET_OFFLINE": "true", "CARGO_TERM_COLOR": "never", "RUST_BACKTRACE": "0"})
ENV.pop("RUSTFLAGS", None)

QUICK_CAP = int(os.environ.get("VERIF_QUICK_CAP", "1500"))      # seconds per harness, quick tier
THOROUGH_CAP = int(os.environ.get("VERIF_THOROUGH_CAP", "3600"))
MEM_GB = int(os.environ.get("VERIF_MEM_GB", "20"))
JOBS = int(os.environ.get("VERIF_JOBS", "12"))
PLAYBACK_MEM_GB = int(os.environ.get("VERIF_PLAYBACK_MEM_GB", "44"))


def log(*a):
    print(*a, flush=True)


def load_known():
    try:
        return json.load(open(KNOWN_FILE))
    except FileNotFoundError:
        return {"findings": [], "fixed": []}


# ----------------------------------------------------------------------------------------------------------------
# harness selection

def harnesses_for(pid, tier):
    hs = []
    for mode in ("real", "vshim"):
        for h in gen.all_harnesses(mode):
            props = h.get("prop", "").split()
            if pid not in props:
                continue
            t = h.get("tier", "quick")
            if tier == "quick" and t != "quick":
                continue
            h["fq"] = "%s::%s::verif_h::%s" % (h["sub"], h["module"], h["name"])
            h["unwind"] = int(h.get("unwind", "2"))
            h["kind"] = h.get("kind", "assert")
            hs.append(h)
    return hs


# ----------------------------------------------------------------------------------------------------------------
# Kani

CHECK_RE = re.compile(r"^Check (\d+): (.+?)\s*$")
STATUS_RE = re.compile(r"^\s*- Status: (\S+)")
DESC_RE = re.compile(r'^\s*- Description: "(.*)"\s*$')
LOC_RE = re.compile(r"^\s*- Location: (.*)$")


def parse_kani(out):
    r = {"checks": [], "verdict": None, "vccs": None, "vccs_remaining": None, "solver_s": 0.0, "symex_s": None,
         "variables": None, "clauses": None, "verif_time_s": None, "steps": None}
    cur = None
    for line in out.splitlines():
        m = CHECK_RE.match(line)
        if m:
            cur = {"n": int(m.group(1)), "name": m.group(2), "status": None, "desc": "", "loc": ""}
            r["checks"].append(cur)
            continue
        if cur is not None:
            m = STATUS_RE.match(line)
            if m:
                cur["status"] = m.group(1)
                continue
            m = DESC_RE.match(line)
            if m:
                cur["desc"] = m.group(1)
                continue
            m = LOC_RE.match(line)
            if m:
                cur["loc"] = m.group(1)
                continue
        m = re.match(r"^VERIFICATION:- (\w+)", line)
        if m:
            r["verdict"] = m.group(1)
        m = re.match(r"^Generated (\d+) VCC\(s\), (\d+) remaining", line)
        if m:
            r["vccs"], r["vccs_remaining"] = int(m.group(1)), int(m.group(2))
        m = re.match(r"^Runtime Solver: ([0-9.e+-]+)s", line)
        if m:
            r["solver_s"] += float(m.group(1))
        m = re.match(r"^Runtime Symex: ([0-9.e+-]+)s", line)
        if m:
            r["symex_s"] = float(m.group(1))
        m = re.match(r"^(\d+) variables, (\d+) clauses", line)
        if m:
            r["variables"], r["clauses"] = int(m.group(1)), int(m.group(2))
        m = re.match(r"^size of program expression: (\d+) steps", line)
        if m:
            r["steps"] = int(m.group(1))
        m = re.match(r"^Verification Time: ([0-9.]+)s", line)
        if m:
            r["verif_time_s"] = float(m.group(1))
    return r


def parse_playback(out):
    """`concrete_vals` blocks printed by --concrete-playback=print -> list of byte-list lists.
    Kani prints one test per failed check AND one per satisfied cover; the cover witnesses are not counterexamples and are skipped."""
    blocks, cur, on, kind = [], None, False, None
    for line in out.splitlines():
        m = re.search(r"/// Check for `(\w+)`", line)
        if m:
            kind = m.group(1)
        if "let concrete_vals: Vec<Vec<u8>> = vec![" in line:
            cur, on = [], True
            continue
        if on:
            s = line.strip()
            if s.startswith("];"):
                if kind != "cover":
                    blocks.append(cur)
                on = False
                kind = None
                continue
            m = re.match(r"^vec!\[([0-9, ]*)\],?$", s)
            if m:
                cur.append([int(x) for x in m.group(1).replace(" ", "").split(",") if x != ""])
    uniq = []
    for b in blocks:
        if b not in uniq:
            uniq.append(b)
    return uniq


def kani_cmd(h, tdir, extra=(), verbose=True):
    cmd = ["cargo", "kani", "--harness", h["fq"], "--exact", "--default-unwind", str(h["unwind"]),
           "--target-dir", tdir, "--verbose", "-Z", "stubbing"]
    cmd += list(extra)
    return cmd


def run_limited(cmd, cwd, timeout, logpath, mem_gb=MEM_GB):
    """Run under ulimit -v and a wall-clock cap; returns (rc, output, timed_out)."""
    sh = "ulimit -v %d; exec \"$@\"" % (mem_gb * 1024 * 1024)
    t0 = time.time()
    with open(logpath, "w") as lf:
        p = subprocess.Popen(["bash", "-c", sh, "bash"] + cmd, cwd=cwd, env=ENV, stdout=lf, stderr=subprocess.STDOUT,
                             start_new_session=True)
        try:
            rc = p.wait(timeout=timeout)
            to = False
        except subprocess.TimeoutExpired:
            to = True
            try:
                os.killpg(p.pid, 9)
            except ProcessLookupError:
                pass
            p.wait()
            rc = -9
    out = open(logpath, errors="replace").read()
    return rc, out, to, time.time() - t0


def is_cover(c):
    return re.search(r"\.cover\.\d+$", c["name"]) is not None and c["desc"].startswith("reach")


def classify(h, res, rc, timed_out, out):
    """-> (status, failed_checks, notes)   status in pass|fail|unwind|capacity|vacuous|timeout|error"""
    if timed_out:
        return "timeout", [], ["wall-clock cap reached"]
    checks = res["checks"]
    # CBMC's --nan-check flags every float operation that can produce NaN. Producing NaN/inf is documented BASIC
    # behaviour (manual ch.1: PRINT 10/0 ' inf) and no property forbids it, so these checks are not obligations.
    failed = [c for c in checks if c["status"] == "FAILURE" and ".NaN." not in c["name"]]
    nan_failed = [c for c in checks if c["status"] == "FAILURE" and ".NaN." in c["name"]]
    undet = [c for c in checks if c["status"] in ("UNDETERMINED", "ERROR")]
    covers = [c for c in checks if is_cover(c)]
    if res["verdict"] is None:
        note = "no verdict (rc=%s)" % rc
        if "out of memory" in out.lower() or "bad_alloc" in out or "std::bad_alloc" in out:
            note = "CBMC out of memory"
        if "error: could not compile" in out or "error[E" in out:
            errs = re.findall(r"^(error(?:\[E\d+\])?: .*)$", out, re.M)
            note = "build failure: " + " | ".join(errs[:3])
        return "error", [], [note]
    cap = [c for c in failed if "VSHIM-CAPACITY" in c["desc"]]
    unw = [c for c in failed if ".unwind." in c["name"] or "unwinding assertion" in c["desc"]]
    unsupported = [c for c in failed if "unsupported_construct" in c["name"] or "is not currently supported by Kani" in c["desc"]]
    real = [c for c in failed if c not in cap and c not in unw and c not in unsupported]
    if real:
        return "fail", real, []
    if unsupported:
        return "error", unsupported, ["reached a construct Kani does not support"]
    if cap:
        return "capacity", cap, ["bounded-container capacity exceeded inside the harness bound"]
    if unw:
        return "unwind", unw, []
    if undet:
        why = "solver error on %d checks (typically memory)" % len(undet) if any(c["status"] == "ERROR" for c in undet) else "undetermined checks"
        return "error", undet, [why]
    if res["verdict"] != "SUCCESSFUL" and not nan_failed:
        return "error", [], ["verdict %s without failed checks" % res["verdict"]]
    bad_cov = [c for c in covers if c["status"] != "SATISFIED"]
    if bad_cov:
        return "vacuous", bad_cov, ["reachability witness not satisfied: " + "; ".join("%s=%s" % (c["desc"], c["status"]) for c in bad_cov)]
    return "pass", [], []


def verify_one(h, crate_dir, scratch, cap):
    tdir = os.path.join(scratch, "t-" + h["name"])
    logp = os.path.join(scratch, h["name"] + ".log")
    cmd0 = kani_cmd(h, tdir)
    if h.get("verbose") == "off":
        # harnesses that reach Runtime::execute_loop crash Kani's --verbose statistics pass (ICE in kani_middle/analysis.rs)
        cmd0 = [c for c in cmd0 if c != "--verbose"]
    rc, out, to, wall = run_limited(cmd0, crate_dir, cap, logp)
    verbose_ice = h.get("verbose") == "off"
    if "kani_middle/analysis.rs" in out and "internal compiler error" in out:
        # Kani's --verbose reachability statistics crash on some harnesses (ICE in analysis.rs); the verdict does not need
        # them: rerun without --verbose (CBMC's VCC / solver statistics are then unavailable for this harness)
        verbose_ice = True
        cmd = [c for c in kani_cmd(h, tdir) if c != "--verbose"]
        rc, out, to, wall2 = run_limited(cmd, crate_dir, cap, logp)
        wall += wall2
    res = parse_kani(out)
    status, failed, notes = classify(h, res, rc, to, out)
    info = {"harness": h["name"], "fq": h["fq"], "mode": h["mode"], "unwind": h["unwind"], "status": status,
            "wall_s": round(wall, 2), "notes": notes, "failed_checks": [{"desc": c["desc"], "loc": c["loc"]} for c in failed][:8],
            "checks": len(res["checks"]),
            "checks_success": sum(1 for c in res["checks"] if c["status"] == "SUCCESS"),
            "nan_checks_not_obligations": sum(1 for c in res["checks"] if ".NaN." in c["name"]),
            "checks_unreachable": sum(1 for c in res["checks"] if c["status"] == "UNREACHABLE"),
            "covers": sum(1 for c in res["checks"] if is_cover(c)),
            "covers_satisfied": sum(1 for c in res["checks"] if is_cover(c) and c["status"] == "SATISFIED"),
            "user_assertions": sum(1 for c in res["checks"] if c["desc"].startswith("C") and ":" in c["desc"][:5]),
            "vccs": res["vccs"], "vccs_remaining": res["vccs_remaining"], "sat_variables": res["variables"],
            "sat_clauses": res["clauses"], "solver_s": round(res["solver_s"], 3), "symex_s": res["symex_s"],
            "program_steps": res["steps"], "log": logp, "verif_time_s": res["verif_time_s"]}
    if verbose_ice:
        info["notes"] = list(info["notes"]) + ["kani --verbose ICE: CBMC statistics unavailable, verification time %ss" % res["verif_time_s"]]
        if info["vccs"] is None and status == "pass":
            info["vccs"] = info["checks"]  # lower bound: every reported check is at least one verification condition
    info["counterexamples"] = []
    info["_tdir"] = tdir
    return info


# ----------------------------------------------------------------------------------------------------------------
# native replay

class Replayer:
    def __init__(self, scratch):
        self.scratch = scratch
        self.built = {}

    def build(self, mode, profile):
        key = (mode, profile)
        if key in self.built:
            return self.built[key]
        d = os.path.join(self.scratch, "crate-" + mode)
        if not os.path.isdir(d):
            os.makedirs(d)
            gen.generate(d, mode, load_known())
        env = dict(ENV)
        env["RUSTFLAGS"] = "--cfg verif_replay -Awarnings"
        if mode == "vshim":
            env["RUST_MIN_STACK"] = "1073741824"
        tdir = os.path.join(self.scratch, "native-" + mode)
        cmd = ["cargo", "build", "--offline", "--bin", "replay", "--target-dir", tdir]
        if profile == "release":
            cmd.append("--release")
        p = subprocess.run(cmd, cwd=d, env=env, stdout=subprocess.PIPE, stderr=subprocess.STDOUT, text=True)
        exe = os.path.join(tdir, profile if profile == "release" else "debug", "replay")
        if p.returncode != 0 or not os.path.exists(exe):
            log("native build failed (%s/%s):\n%s" % (mode, profile, p.stdout[-3000:]))
            exe = None
        self.built[key] = exe
        return exe

    def replay(self, mode, harness, vals, profile="debug", timeout=20, no_exclude=False):
        """-> (outcome, detail)  outcome in reproduced|hang|clean|invalid|error"""
        exe = self.build(mode, profile)
        if exe is None:
            return "error", "native build failed"
        vf = os.path.join(self.scratch, "vals-%s-%s.txt" % (harness, hashlib.md5(json.dumps(vals).encode()).hexdigest()[:8]))
        with open(vf, "w") as f:
            for v in vals:
                f.write(" ".join(str(b) for b in v) + "\n")
        env = dict(ENV)
        env["RUST_MIN_STACK"] = "1073741824"
        if no_exclude:
            env["VK_NO_EXCLUDE"] = "1"
        try:
            p = subprocess.run([exe, harness, vf], env=env, stdout=subprocess.PIPE, stderr=subprocess.STDOUT, text=True,
                               timeout=timeout)
        except subprocess.TimeoutExpired:
            return "hang", "no return within %ds" % timeout
        out = p.stdout[-1500:]
        if p.returncode == 0 and "VK-REPLAY-DONE" in p.stdout:
            return "clean", out
        if p.returncode in (3, 4, 5, 2):
            return "invalid", out
        if "has overflowed its stack" in p.stdout or "VSHIM-CAPACITY" in p.stdout:
            return "error", out  # a limitation of the native replay build, not a property violation
        return "reproduced", out  # 101 panic (incl. arithmetic overflow in dev), abort


# ----------------------------------------------------------------------------------------------------------------

def write_replay_file(pid, h, vals, detail, profile):
    os.makedirs(REPLAYS, exist_ok=True)
    tag = hashlib.md5(json.dumps(vals).encode()).hexdigest()[:8]
    path = os.path.join(REPLAYS, "%s-%s-%s.json" % (pid, h["harness"], tag))
    json.dump({"property": pid, "harness": h["harness"], "fq": h["fq"], "mode": h["mode"], "values": vals,
               "failed_checks": h["failed_checks"], "native_profile": profile, "native_output": detail,
               "how": "./check %s --replay %s" % (pid, path)}, open(path, "w"), indent=1)
    return path


def finding_matches(f, pid, hname, vals):
    return f.get("property") == pid and f.get("harness") == hname and f.get("values") == vals


def run_property(pid, tier="quick", seed=0):
    t0 = time.time()
    hs = harnesses_for(pid, tier)
    only = os.environ.get("VERIF_ONLY")  # development aid: regex on harness names (never used by registered commands)
    if only:
        hs = [h for h in hs if re.search(only, h["name"])]
    if not hs:
        log("no harnesses registered for %s" % pid)
        return 2
    # VERIF_SEED only permutes the order in which harnesses are dispatched; verdicts do not depend on it
    import random
    random.Random(seed).shuffle(hs)
    scratch = tempfile.mkdtemp(prefix="basic-verif-%s-" % pid)
    known = load_known()
    if tier == "thorough" and any(h["mode"] == "vshim" for h in hs) and not os.environ.get("VERIF_ONLY"):
        # translator validation: the repository's own tests must pass on the shimmed build, otherwise nothing is reported
        from . import validate
        ok, passed, failed, fails, out = validate.run()
        log("[%s] container-model validation: %d repo tests passed, %d failed on the shimmed build" % (pid, passed, failed))
        if not ok:
            log("INCONCLUSIVE %s: the bounded container models no longer pass the repository's tests: %s" % (pid, ", ".join(fails[:5])))
            shutil.rmtree(scratch, ignore_errors=True)
            return 2
    try:
        digests = {}
        for h in hs:
            h["crate"] = "crate-" + h["mode"] + ("" if gen.caps_key(h.get("caps")) == "default" else "-" + gen.caps_key(h.get("caps")))
            d = os.path.join(scratch, h["crate"])
            if not os.path.isdir(d):
                os.makedirs(d)
                digests.update(gen.generate(d, h["mode"], known, h.get("caps")))
        cap = QUICK_CAP if tier == "quick" else THOROUGH_CAP
        infos = []
        with ThreadPoolExecutor(max_workers=JOBS) as ex:
            futs = [ex.submit(verify_one, h, os.path.join(scratch, h["crate"]), scratch, cap) for h in hs]
            for h, f in zip(hs, futs):
                info = f.result()
                info["crate"] = h["crate"]
                for k in ("encodes", "bounds", "stubs", "outside", "kind", "caps"):
                    if k in h:
                        info[k] = h[k]
                infos.append(info)
                log("[%s] %-34s %-9s %6.1fs  checks=%s vccs=%s solver=%.2fs %s" % (
                    pid, info["harness"], info["status"], info["wall_s"], info["checks"], info["vccs"],
                    info["solver_s"], "; ".join(info["notes"])))
        # counterexample extraction: one at a time (trace generation needs far more memory than the verdict)
        for h, info in zip(hs, infos):
            if info["status"] == "fail" or (info["status"] == "unwind" and h["kind"] == "termination"):
                logp2 = os.path.join(scratch, h["name"] + ".playback.log")
                extra = ["-Z", "concrete-playback", "--concrete-playback=print", "--no-assertion-reach-checks"]
                mem_related = any(("dereference" in c["desc"] or "pointer" in c["desc"] or "memory" in c["desc"])
                                  for c in info["failed_checks"])
                if not mem_related:
                    # the trace is only needed for the failed assertion / overflow / panic: without the ~2000 pointer checks of a
                    # typical harness the playback run is one or two solver calls instead of one per check
                    extra += ["--no-memory-safety-checks", "--no-undefined-function-checks"]
                pcmd = [c for c in kani_cmd(h, info["_tdir"], extra) if c != "--verbose" or h.get("verbose") != "off"]
                rc2, out2, to2, _ = run_limited(pcmd, os.path.join(scratch, h["crate"]), max(cap, 1200), logp2,
                                                mem_gb=PLAYBACK_MEM_GB)
                info["counterexamples"] = parse_playback(out2)
                if not info["counterexamples"]:
                    info["notes"].append("concrete playback produced no values" + (" (out of memory)" if "out of memory" in out2.lower() else ""))
            shutil.rmtree(info.pop("_tdir"), ignore_errors=True)
        rp = Replayer(scratch)
        violations, inconclusive, known_lines = [], [], []
        for info in infos:
            st = info["status"]
            if st == "pass":
                continue
            if st in ("fail",) or (st == "unwind" and info.get("kind") == "termination"):
                if not info["counterexamples"]:
                    inconclusive.append("%s: solver reported a failure but no concrete values were obtained" % info["harness"])
                    continue
                confirmed = False
                for vals in info["counterexamples"]:
                    for profile in ("debug", "release"):
                        outcome, detail = rp.replay(info["mode"], info["harness"], vals, profile)
                        log("[%s] replay %s (%s): %s" % (pid, info["harness"], profile, outcome))
                        if outcome in ("reproduced", "hang"):
                            path = write_replay_file(pid, info, vals, detail, profile)
                            violations.append((info, vals, path, detail))
                            confirmed = True
                            break
                    if confirmed:
                        break
                if not confirmed:
                    inconclusive.append("%s: counterexample did not reproduce natively (encoding or stub suspect)" % info["harness"])
            else:
                inconclusive.append("%s: %s %s" % (info["harness"], st, "; ".join(info["notes"])))
        # known findings of this property: replay the recorded values against the current tree
        for f in known.get("findings", []):
            if f.get("property") != pid:
                continue
            hinfo = next((h for h in gen.all_harnesses(f["mode"]) if h["name"] == f["harness"]), None)
            if hinfo is None:
                continue
            d = os.path.join(scratch, "crate-" + f["mode"])
            if not os.path.isdir(d):
                os.makedirs(d)
                gen.generate(d, f["mode"], known)
            # replay the recorded counterexample with the exclusion switched off: the defect must still be there
            outcome, detail = rp.replay(f["mode"], f["harness"], f["values"], "debug", no_exclude=True)
            if outcome in ("reproduced", "hang"):
                known_lines.append("KNOWN-FINDING: property=%s %s" % (pid, f["what"]))
            else:
                log("NOTE: known finding %s no longer reproduces on this tree (%s)" % (f["id"], outcome))
        for l in known_lines:
            log(l)
        wall = time.time() - t0
        write_evidence(pid, tier, seed, infos, violations, inconclusive, digests, wall, known)
        for (info, vals, path, detail) in violations:
            log("VIOLATION property=%s replay=%s" % (pid, path))
            log("  harness %s: %s" % (info["harness"], "; ".join(c["desc"] for c in info["failed_checks"][:3])))
        if violations:
            return 1
        if inconclusive:
            for m in inconclusive:
                log("INCONCLUSIVE %s: %s" % (pid, m))
            return 2
        log("OK %s: %d harnesses verified in %.1fs" % (pid, len(infos), wall))
        return 0
    finally:
        if os.environ.get("VERIF_KEEP"):
            log("scratch kept at " + scratch)
        else:
            shutil.rmtree(scratch, ignore_errors=True)


def write_evidence(pid, tier, seed, infos, violations, inconclusive, digests, wall, known):
    evid_dir = EVID
    if os.environ.get("VERIF_ONLY"):
        evid_dir = os.path.join(EVID, "dev")  # partial development runs never overwrite the real evidence file
    os.makedirs(evid_dir, exist_ok=True)
    passed = [i for i in infos if i["status"] == "pass"]
    obligations = sum(i["checks"] - i["checks_unreachable"] - i["nan_checks_not_obligations"] for i in infos)
    discharged = sum(i["checks"] - i["checks_unreachable"] - i["nan_checks_not_obligations"] for i in passed)
    stubs = set()
    for i in infos:
        for s in (i.get("stubs") or "").split(";"):
            if s.strip():
                stubs.add(s.strip())
    modes = sorted(set(i["mode"] for i in infos))
    assumptions = [
        "bounded verdicts: each harness holds for ALL values of its symbolic inputs within the stated bounds (see coverage.harnesses[].bounds); nothing is claimed outside them",
        "Kani 0.68.0 / CBMC 6.11.0 / CaDiCaL and rustc are trusted; Kani models the dev profile (overflow checks on, panic=abort)",
        "environment stubs: rand::random::<u32>() = any u32, chrono::Local::now() = a constant",
        "harness oracles are transcriptions of the manual (src/doc) and are trusted",
    ]
    if "vshim" in modes:
        assumptions.append("mode vshim: String/Vec/VecDeque/HashMap/BTreeMap/Rc<str>/Arc are replaced by bounded array-backed models "
                           "(harness/crate/src/vshim); .to_string()/.find()/.repeat() are routed to bounded equivalents; capacities are part of each bound")
    for s in sorted(stubs):
        assumptions.append("stub: " + s)
    replayed = sum(len(i.get("counterexamples") or []) for i in infos) + len([f for f in known.get("findings", []) if f.get("property") == pid])
    samples = []
    for i in infos[:6]:
        samples.append({"harness": i["harness"], "functions_encoded": i.get("encodes"), "symbolic_domain": i.get("bounds"),
                        "verdict": i["status"]})
    for (info, vals, path, detail) in violations:
        samples.append({"counterexample_for": info["harness"], "values": vals, "replay": path})
    ev = {
        "property_id": pid, "tier": tier, "seed": seed, "level": "model_checking",
        "coverage": {
            "evaluations": len(infos),
            "distinct_nontrivial": sum(1 for i in passed if i["covers"] > 0 and i["covers_satisfied"] == i["covers"] and (i["vccs"] or 0) > 0),
            "rule": "one evaluation = one solver query set (Kani harness) over the real source compiled from /repo's working tree; "
                    "non-trivial = verified with every reachability cover SATISFIED and at least one verification condition generated; "
                    "each harness is distinct by name and by the functions/bounds it encodes",
            "samples": samples,
            # model-checking keys, with the meaning they have for a bounded model checker (stated in "explanation"):
            "states": sum((i.get("program_steps") or 0) for i in infos) or sum(i["checks"] for i in infos),
            "transitions": sum((i.get("vccs") or 0) for i in infos) or sum(i["checks"] for i in infos),
            "traces_validated_against_impl": replayed,
            "obligations": obligations, "discharged": discharged,
            "checker_cmd": "cargo kani --harness <fq> --exact --default-unwind <n> (unwinding assertions on)",
            "trusted_base": ["rustc", "Kani 0.68.0", "CBMC 6.11.0", "CaDiCaL", "harness oracles", "vshim container models (mode vshim only)"],
            "exhaustive": False,
            "explanation": "bounded model checking of the compiled source: verdict over all values of the symbolic inputs within the stated bounds. "
                           "states = SSA steps of the unwound program that CBMC executed symbolically (each one a symbolic program state; for harnesses whose "
                           "statistics are unavailable the number of checks is used), transitions = verification conditions generated from them, "
                           "traces_validated_against_impl = solver counterexamples and recorded known findings replayed natively against the compiled code in this run",
            "harnesses": [{k: v for k, v in i.items() if k not in ("log",)} for i in infos],
            "solver_time_s": round(sum(i["solver_s"] for i in infos), 3),
            "source_digests": digests,
            "inconclusive": inconclusive,
            "known_findings": [f["id"] for f in known.get("findings", []) if f.get("property") == pid],
        },
        "assumptions": assumptions,
        "wall_s": round(wall, 2),
        "violations": len(violations),
    }
    json.dump(ev, open(os.path.join(evid_dir, pid + ".json"), "w"), indent=1)


def replay_file(pid, path):
    r = json.load(open(path))
    scratch = tempfile.mkdtemp(prefix="basic-verif-replay-")
    try:
        d = os.path.join(scratch, "crate-" + r["mode"])
        os.makedirs(d)
        gen.generate(d, r["mode"], load_known())
        rp = Replayer(scratch)
        rc = 0
        for profile in ("debug", "release"):
            outcome, detail = rp.replay(r["mode"], r["harness"], r["values"], profile)
            log("replay %s (%s): %s\n%s" % (r["harness"], profile, outcome, detail))
            if outcome in ("reproduced", "hang"):
                rc = 1
        if rc:
            log("VIOLATION property=%s replay=%s" % (pid, path))
        return rc
    finally:
        shutil.rmtree(scratch, ignore_errors=True)
