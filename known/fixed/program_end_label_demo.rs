use basic::mach::{Event, Runtime};

fn run(lines: &[&str], max_events: usize) -> String {
    let mut r = Runtime::default();
    for l in lines { r.enter(l); }
    let mut s = String::new();
    for _ in 0..max_events {
        match r.execute(50) {
            Event::Stopped => { s.push_str("<STOPPED>"); break; }
            Event::Print(p) => s.push_str(&p),
            Event::Errors(e) => for e in e.iter() { s.push_str(&format!("{}\n", e)); },
            Event::Running => s.push_str("<R>"),
            _ => s.push_str("<other>"),
        }
    }
    s
}
#[test]
fn if_then_end_last_line() {
    let out = run(&[r#"10 PRINT "A""#, "20 IF X THEN END", "RUN"], 40);
    println!("[{}]", out);
    assert_eq!(out, "A\nREADY.\n<STOPPED>");
}
#[test]
fn trailing_rem_target_run() {
    let out = run(&[r#"10 PRINT "A":GOTO 30"#, "20 END", "30 REM", "RUN"], 40);
    println!("[{}]", out);
    assert_eq!(out, "A\nREADY.\n<STOPPED>");
}
#[test]
fn trailing_rem_direct() {
    let out = run(&[r#"10 PRINT "A":GOTO 30"#, "20 END", "30 REM", r#"PRINT "D":GOTO 10"#], 40);
    println!("[{}]", out);
    assert_eq!(out, "D\nA\nREADY.\n<STOPPED>");
}
