//! Environment stub for the `rand` crate (only `rand::random::<u32>()` is used by basic-lang).
//! Under Kani the value is nondeterministic (any u32); natively it is a fixed-seed LCG.
pub trait Rnd {
    fn rnd() -> Self;
}
impl Rnd for u32 {
    #[cfg(kani)]
    fn rnd() -> u32 {
        kani::any()
    }
    #[cfg(not(kani))]
    fn rnd() -> u32 {
        use std::sync::atomic::{AtomicU32, Ordering};
        static S: AtomicU32 = AtomicU32::new(0x2545_F491);
        let x = S.load(Ordering::Relaxed).wrapping_mul(1664525).wrapping_add(1013904223);
        S.store(x, Ordering::Relaxed);
        x
    }
}
pub fn random<T: Rnd>() -> T {
    T::rnd()
}
