//! Environment stub for `chrono` (only `Local::now().format(..)` + Display is used by basic-lang).
pub struct Local;
pub struct DateTime;
pub struct Formatted(&'static str);
impl Local {
    pub fn now() -> DateTime {
        DateTime
    }
}
impl DateTime {
    pub fn format(&self, fmt: &str) -> Formatted {
        if fmt.starts_with("%H") {
            Formatted("12:34:56")
        } else {
            Formatted("01-02-2026")
        }
    }
}
impl std::fmt::Display for Formatted {
    fn fmt(&self, f: &mut std::fmt::Formatter<'_>) -> std::fmt::Result {
        f.write_str(self.0)
    }
}
