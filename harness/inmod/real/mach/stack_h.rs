//! In-module harnesses for `mach::stack` on the real std build. `Stack<()>`: a Vec of a zero-sized type is a counter, so every
//! length up to and beyond the 65535 limit is reachable symbolically. One instantiation of the generic code (T = ()).
use super::*;
use crate::lang::vh_error as ec;
use crate::vk;

fn stack_of_len(n: usize) -> Stack<()> {
    let mut st: Stack<()> = Stack::new("LIMIT");
    unsafe { st.vec.set_len(n) };
    st
}

//@ prop: C18
//@ tier: quick
//@ unwind: 6
//@ encodes: Stack::push; Stack::overflow_check; Stack::is_full; Stack::pop; Stack::len (instantiated at T = ())
//@ bounds: every stack length 0..=70000
vk_harness!(c18_stack_limit_logic, {
    let n = vk::any_u32() as usize;
    vk::assume(n <= 70000);
    let mut st = stack_of_len(n);
    vk_check!(st.len() == n && st.is_empty() == (n == 0), "C18: len / is_empty report the true size");
    vk_check!(st.is_full() == (n > 65535 - 32), "C18: the stack reports full within 32 entries of the 64K limit");
    let pushed = st.push(());
    if n + 1 > 65535 {
        match pushed {
            Err(e) => vk_check!(ec::code_of(&e) == ec::OUT_OF_MEMORY, "C18: growing past 65535 entries is OUT OF MEMORY"),
            Ok(()) => vk_check!(false, "C18: the stack grew past the 64K limit without an error"),
        }
    } else {
        vk_check!(pushed.is_ok() && st.len() == n + 1, "C18: a push below the limit succeeds");
    }
    let mut empty = stack_of_len(0);
    match empty.pop() {
        Err(e) => vk_check!(ec::code_of(&e) == ec::INTERNAL_ERROR, "C18: popping an empty stack is an error, not a crash"),
        Ok(()) => vk_check!(false, "C18: pop on an empty stack returned a value"),
    }
    vk_cover!(n == 65535, "reach: at the limit");
    vk_cover!(n == 65534, "reach: last free slot");
    core::mem::forget(st);
    core::mem::forget(empty);
});

//@ prop: C18
//@ tier: quick
//@ unwind: 6
//@ encodes: Stack::pop_n; Stack::pop_2; Stack::drain (instantiated at T = ())
//@ bounds: every stack length 0..=65535; pop_n of 0..=3 entries
vk_harness!(c18_pop_n_takes_exactly_n, {
    let n = vk::any_u16() as usize;
    let k = vk::any_below(4) as usize;
    let mut st = stack_of_len(n);
    let got = st.pop_n(k);
    if k > n {
        vk_check!(got.is_err() && st.len() == n, "C18: taking more entries than there are is an error and takes nothing");
    } else {
        match got {
            Ok(top) => vk_check!(top.len() == k && st.len() == n - k, "C18: pop_n moves exactly n entries"),
            Err(_) => vk_check!(false, "C18: pop_n failed although enough entries were there"),
        }
    }
    let mut two = stack_of_len(n);
    let p2 = two.pop_2();
    vk_check!(p2.is_ok() == (n >= 2), "C18: pop_2 needs two entries");
    vk_cover!(k == 3 && n == 3, "reach: take everything");
    core::mem::forget(st);
    core::mem::forget(two);
});
