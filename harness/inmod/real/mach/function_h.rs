//! In-module harnesses for `mach::function` (real std build).
use super::*;
use crate::lang::vh_error as ec;
use crate::vk;

//@ prop: C08
//@ tier: quick
//@ unwind: 2
//@ encodes: Function::abs (Integer arm)
//@ bounds: all 2^16 operands
vk_harness!(c08_abs, {
    let n = vk::any_i16();
    let got = Function::abs(Val::Integer(n));
    vk_cover!(got.is_ok(), "reach: abs ok");
    let exact = if n < 0 { -(n as i32) } else { n as i32 };
    match got {
        Ok(Val::Integer(m)) => {
            vk_check!(exact <= 32767, "C08: ABS returned an Integer although the exact result is out of range");
            vk_check!(m as i32 == exact, "C08: ABS differs from the exact absolute value");
        }
        Ok(_) => vk_check!(false, "C08: ABS(Integer) did not yield an Integer"),
        Err(e) => {
            vk_check!(exact > 32767, "C08: ABS raised an error although the result fits");
            vk_check!(ec::code_of(&e) == ec::OVERFLOW, "C08: out-of-range ABS must be OVERFLOW");
        }
    }
});

//@ prop: C08
//@ tier: quick
//@ unwind: 2
//@ encodes: Function::cint; <i16 as TryFrom<Val>>::try_from (Single arm, f32::floor)
//@ bounds: all 2^32 f32 bit patterns (NaN, infinities, subnormals included)
vk_harness!(c08_cint_single, {
    let x = vk::any_f32();
    let got = Function::cint(Val::Single(x));
    vk_cover!(got.is_ok(), "reach: cint single ok");
    vk_cover!(got.is_err(), "reach: cint single err");
    // exact floor characterisation without calling floor: n <= x < n+1 (all exact in f32 for |n| <= 32768)
    match got {
        Ok(Val::Integer(n)) => {
            vk_check!((n as f32) <= x && x < (n as f32) + 1.0, "C08: CINT(Single) is not the exact floor of the value");
        }
        Ok(_) => vk_check!(false, "C08: CINT did not yield an Integer"),
        Err(e) => {
            vk_check!(!(x >= -32768.0 && x < 32768.0), "C08: CINT(Single) raised an error although floor(x) fits in -32768..32767");
            vk_check!(ec::code_of(&e) == ec::OVERFLOW, "C08: out-of-range conversion must be OVERFLOW");
        }
    }
});

//@ prop: C08
//@ tier: quick
//@ unwind: 2
//@ encodes: Function::cint; <i16 as TryFrom<Val>>::try_from (Double arm, f64::floor)
//@ bounds: all 2^64 f64 bit patterns
vk_harness!(c08_cint_double, {
    let x = vk::any_f64();
    let got = Function::cint(Val::Double(x));
    vk_cover!(got.is_ok(), "reach: cint double ok");
    vk_cover!(got.is_err(), "reach: cint double err");
    match got {
        Ok(Val::Integer(n)) => {
            vk_check!((n as f64) <= x && x < (n as f64) + 1.0, "C08: CINT(Double) is not the exact floor of the value");
        }
        Ok(_) => vk_check!(false, "C08: CINT did not yield an Integer"),
        Err(e) => {
            vk_check!(!(x >= -32768.0 && x < 32768.0), "C08: CINT(Double) raised an error although floor(x) fits in -32768..32767");
            vk_check!(ec::code_of(&e) == ec::OVERFLOW, "C08: out-of-range conversion must be OVERFLOW");
        }
    }
});

// ---------------------------------------------------------------------------------------------------------------
// C02: documented numeric functions whose result is exactly characterisable (type-preserving ones and SGN).
use crate::mach::vh_operation::{any_n, N};

//@ prop: C02
//@ tier: quick
//@ unwind: 2
//@ encodes: Function::int; Function::fix; Function::sgn; Function::abs (float arms); Function::cdbl; Function::csng
//@ bounds: argument any of Integer/Single/Double with all bit patterns
//@ outside: transcendental functions (SIN COS TAN ATN EXP LOG SQR go to libm, which CBMC over-approximates)
vk_harness!(c02_numeric_functions, {
    let v = any_n();
    match (v, Function::int(v.val()), Function::fix(v.val()), Function::sgn(v.val())) {
        (N::I(n), Ok(Val::Integer(a)), Ok(Val::Integer(b)), Ok(Val::Integer(s))) => {
            vk_check!(a == n && b == n, "C02: INT/FIX of an Integer is the Integer");
            vk_check!(s == if n > 0 { 1 } else if n < 0 { -1 } else { 0 }, "C02: SGN(Integer)");
        }
        (N::S(x), Ok(Val::Single(a)), Ok(Val::Single(b)), Ok(Val::Integer(s))) => {
            if x.is_finite() {
                vk_check!(a <= x && x < a + 1.0 || a == x, "C02: INT(Single) is the floor");
                vk_check!(b.abs() <= x.abs() && (x.abs() - b.abs()) < 1.0 && (b == 0.0 || (b < 0.0) == (x < 0.0)), "C02: FIX(Single) truncates toward zero");
            }
            if !x.is_nan() {
                vk_check!(s == if x > 0.0 { 1 } else if x < 0.0 { -1 } else { 0 }, "C02: SGN(Single)");
            }
        }
        (N::D(x), Ok(Val::Double(a)), Ok(Val::Double(b)), Ok(Val::Integer(s))) => {
            if x.is_finite() {
                vk_check!(a <= x && x < a + 1.0 || a == x, "C02: INT(Double) is the floor");
                vk_check!(b.abs() <= x.abs() && (x.abs() - b.abs()) < 1.0 && (b == 0.0 || (b < 0.0) == (x < 0.0)), "C02: FIX(Double) truncates toward zero");
            }
            if !x.is_nan() {
                vk_check!(s == if x > 0.0 { 1 } else if x < 0.0 { -1 } else { 0 }, "C02: SGN(Double)");
            }
        }
        _ => vk_check!(false, "C02: INT/FIX must keep the argument type and SGN must yield an Integer"),
    }
    match (v, Function::abs(v.val()), Function::cdbl(v.val()), Function::csng(v.val())) {
        (N::I(n), _, Ok(Val::Double(d)), Ok(Val::Single(s))) => vk_check!(d == n as f64 && s == n as f32, "C02: CDBL/CSNG(Integer)"),
        (N::S(x), Ok(Val::Single(a)), Ok(Val::Double(d)), Ok(Val::Single(s))) => {
            vk_check!(a.to_bits() == (x.to_bits() & 0x7fff_ffff), "C02: ABS(Single) clears the sign");
            vk_check!(s.to_bits() == x.to_bits() && (d.to_bits() == (x as f64).to_bits() || x.is_nan()), "C02: CDBL/CSNG(Single)");
        }
        (N::D(x), Ok(Val::Double(a)), Ok(Val::Double(d)), Ok(Val::Single(s))) => {
            vk_check!(a.to_bits() == (x.to_bits() & 0x7fff_ffff_ffff_ffff), "C02: ABS(Double) clears the sign");
            vk_check!(d.to_bits() == x.to_bits() && (s.to_bits() == (x as f32).to_bits() || x.is_nan()), "C02: CDBL/CSNG(Double)");
        }
        _ => vk_check!(false, "C02: ABS keeps the argument type; CDBL yields Double; CSNG yields Single"),
    }
    vk_cover!(true, "reach: numeric functions");
});
