//! In-module harnesses for `mach::function` (real std build).
use super::*;
use crate::lang::vh_error as ec;
use crate::vk;

//@ prop: C08
//@ tier: quick
//@ unwind: 2
//@ encodes: Function::abs (Integer arm)
//@ bounds: all 2^16 operands
vk_harness!(c08_abs, {
    let n = vk::any_i16();
    let got = Function::abs(Val::Integer(n));
    vk_cover!(got.is_ok(), "reach: abs ok");
    let exact = if n < 0 { -(n as i32) } else { n as i32 };
    match got {
        Ok(Val::Integer(m)) => {
            vk_check!(exact <= 32767, "C08: ABS returned an Integer although the exact result is out of range");
            vk_check!(m as i32 == exact, "C08: ABS differs from the exact absolute value");
        }
        Ok(_) => vk_check!(false, "C08: ABS(Integer) did not yield an Integer"),
        Err(e) => {
            vk_check!(exact > 32767, "C08: ABS raised an error although the result fits");
            vk_check!(ec::code_of(&e) == ec::OVERFLOW, "C08: out-of-range ABS must be OVERFLOW");
        }
    }
});

//@ prop: C08
//@ tier: quick
//@ unwind: 2
//@ encodes: Function::cint; <i16 as TryFrom<Val>>::try_from (Single arm, f32::floor)
//@ bounds: all 2^32 f32 bit patterns (NaN, infinities, subnormals included)
vk_harness!(c08_cint_single, {
    let x = vk::any_f32();
    let got = Function::cint(Val::Single(x));
    vk_cover!(got.is_ok(), "reach: cint single ok");
    vk_cover!(got.is_err(), "reach: cint single err");
    // exact floor characterisation without calling floor: n <= x < n+1 (all exact in f32 for |n| <= 32768)
    match got {
        Ok(Val::Integer(n)) => {
            vk_check!((n as f32) <= x && x < (n as f32) + 1.0, "C08: CINT(Single) is not the exact floor of the value");
        }
        Ok(_) => vk_check!(false, "C08: CINT did not yield an Integer"),
        Err(e) => {
            vk_check!(!(x >= -32768.0 && x < 32768.0), "C08: CINT(Single) raised an error although floor(x) fits in -32768..32767");
            vk_check!(ec::code_of(&e) == ec::OVERFLOW, "C08: out-of-range conversion must be OVERFLOW");
        }
    }
});

//@ prop: C08
//@ tier: quick
//@ unwind: 2
//@ encodes: Function::cint; <i16 as TryFrom<Val>>::try_from (Double arm, f64::floor)
//@ bounds: all 2^64 f64 bit patterns
vk_harness!(c08_cint_double, {
    let x = vk::any_f64();
    let got = Function::cint(Val::Double(x));
    vk_cover!(got.is_ok(), "reach: cint double ok");
    vk_cover!(got.is_err(), "reach: cint double err");
    match got {
        Ok(Val::Integer(n)) => {
            vk_check!((n as f64) <= x && x < (n as f64) + 1.0, "C08: CINT(Double) is not the exact floor of the value");
        }
        Ok(_) => vk_check!(false, "C08: CINT did not yield an Integer"),
        Err(e) => {
            vk_check!(!(x >= -32768.0 && x < 32768.0), "C08: CINT(Double) raised an error although floor(x) fits in -32768..32767");
            vk_check!(ec::code_of(&e) == ec::OVERFLOW, "C08: out-of-range conversion must be OVERFLOW");
        }
    }
});
