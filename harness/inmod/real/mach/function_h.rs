//! In-module harnesses for `mach::function` (real std build).
use super::*;
use crate::lang::vh_error as ec;
use crate::vk;

//@ prop: C08
//@ tier: quick
//@ unwind: 2
//@ encodes: Function::abs (Integer arm)
//@ bounds: all 2^16 operands
vk_harness!(c08_abs, {
    let n = vk::any_i16();
    let got = Function::abs(Val::Integer(n));
    vk_cover!(got.is_ok(), "reach: abs ok");
    let exact = if n < 0 { -(n as i32) } else { n as i32 };
    match got {
        Ok(Val::Integer(m)) => {
            vk_check!(exact <= 32767, "C08: ABS returned an Integer although the exact result is out of range");
            vk_check!(m as i32 == exact, "C08: ABS differs from the exact absolute value");
        }
        Ok(_) => vk_check!(false, "C08: ABS(Integer) did not yield an Integer"),
        Err(e) => {
            vk_check!(exact > 32767, "C08: ABS raised an error although the result fits");
            vk_check!(ec::code_of(&e) == ec::OVERFLOW, "C08: out-of-range ABS must be OVERFLOW");
        }
    }
});

//@ prop: C08
//@ tier: quick
//@ unwind: 2
//@ encodes: Function::cint; <i16 as TryFrom<Val>>::try_from (Single arm, f32::floor)
//@ bounds: all 2^32 f32 bit patterns (NaN, infinities, subnormals included)
vk_harness!(c08_cint_single, {
    let x = vk::any_f32();
    let got = Function::cint(Val::Single(x));
    vk_cover!(got.is_ok(), "reach: cint single ok");
    vk_cover!(got.is_err(), "reach: cint single err");
    // exact floor characterisation without calling floor: n <= x < n+1 (all exact in f32 for |n| <= 32768)
    match got {
        Ok(Val::Integer(n)) => {
            vk_check!((n as f32) <= x && x < (n as f32) + 1.0, "C08: CINT(Single) is not the exact floor of the value");
        }
        Ok(_) => vk_check!(false, "C08: CINT did not yield an Integer"),
        Err(e) => {
            vk_check!(!(x >= -32768.0 && x < 32768.0), "C08: CINT(Single) raised an error although floor(x) fits in -32768..32767");
            vk_check!(ec::code_of(&e) == ec::OVERFLOW, "C08: out-of-range conversion must be OVERFLOW");
        }
    }
});

//@ prop: C08
//@ tier: quick
//@ unwind: 2
//@ encodes: Function::cint; <i16 as TryFrom<Val>>::try_from (Double arm, f64::floor)
//@ bounds: all 2^64 f64 bit patterns
vk_harness!(c08_cint_double, {
    let x = vk::any_f64();
    let got = Function::cint(Val::Double(x));
    vk_cover!(got.is_ok(), "reach: cint double ok");
    vk_cover!(got.is_err(), "reach: cint double err");
    match got {
        Ok(Val::Integer(n)) => {
            vk_check!((n as f64) <= x && x < (n as f64) + 1.0, "C08: CINT(Double) is not the exact floor of the value");
        }
        Ok(_) => vk_check!(false, "C08: CINT did not yield an Integer"),
        Err(e) => {
            vk_check!(!(x >= -32768.0 && x < 32768.0), "C08: CINT(Double) raised an error although floor(x) fits in -32768..32767");
            vk_check!(ec::code_of(&e) == ec::OVERFLOW, "C08: out-of-range conversion must be OVERFLOW");
        }
    }
});

// ---------------------------------------------------------------------------------------------------------------
// C02: documented numeric functions whose result is exactly characterisable (type-preserving ones and SGN).
use crate::mach::vh_operation::{any_n, N};

//@ prop: C02
//@ tier: quick
//@ unwind: 2
//@ encodes: Function::int; Function::fix; Function::sgn; Function::abs (float arms); Function::cdbl; Function::csng
//@ bounds: argument any of Integer/Single/Double with all bit patterns
//@ outside: transcendental functions (SIN COS TAN ATN EXP LOG SQR go to libm, which CBMC over-approximates)
vk_harness!(c02_numeric_functions, {
    let v = any_n();
    match (v, Function::int(v.val()), Function::fix(v.val()), Function::sgn(v.val())) {
        (N::I(n), Ok(Val::Integer(a)), Ok(Val::Integer(b)), Ok(Val::Integer(s))) => {
            vk_check!(a == n && b == n, "C02: INT/FIX of an Integer is the Integer");
            vk_check!(s == if n > 0 { 1 } else if n < 0 { -1 } else { 0 }, "C02: SGN(Integer)");
        }
        (N::S(x), Ok(Val::Single(a)), Ok(Val::Single(b)), Ok(Val::Integer(s))) => {
            if x.is_finite() {
                vk_check!(a <= x && x < a + 1.0 || a == x, "C02: INT(Single) is the floor");
                vk_check!(b.abs() <= x.abs() && (x.abs() - b.abs()) < 1.0 && (b == 0.0 || (b < 0.0) == (x < 0.0)), "C02: FIX(Single) truncates toward zero");
            }
            if !x.is_nan() {
                vk_check!(s == if x > 0.0 { 1 } else if x < 0.0 { -1 } else { 0 }, "C02: SGN(Single)");
            }
        }
        (N::D(x), Ok(Val::Double(a)), Ok(Val::Double(b)), Ok(Val::Integer(s))) => {
            if x.is_finite() {
                vk_check!(a <= x && x < a + 1.0 || a == x, "C02: INT(Double) is the floor");
                vk_check!(b.abs() <= x.abs() && (x.abs() - b.abs()) < 1.0 && (b == 0.0 || (b < 0.0) == (x < 0.0)), "C02: FIX(Double) truncates toward zero");
            }
            if !x.is_nan() {
                vk_check!(s == if x > 0.0 { 1 } else if x < 0.0 { -1 } else { 0 }, "C02: SGN(Double)");
            }
        }
        _ => vk_check!(false, "C02: INT/FIX must keep the argument type and SGN must yield an Integer"),
    }
    match (v, Function::abs(v.val()), Function::cdbl(v.val()), Function::csng(v.val())) {
        (N::I(n), _, Ok(Val::Double(d)), Ok(Val::Single(s))) => vk_check!(d == n as f64 && s == n as f32, "C02: CDBL/CSNG(Integer)"),
        (N::S(x), Ok(Val::Single(a)), Ok(Val::Double(d)), Ok(Val::Single(s))) => {
            vk_check!(a.to_bits() == (x.to_bits() & 0x7fff_ffff), "C02: ABS(Single) clears the sign");
            vk_check!(s.to_bits() == x.to_bits() && (d.to_bits() == (x as f64).to_bits() || x.is_nan()), "C02: CDBL/CSNG(Single)");
        }
        (N::D(x), Ok(Val::Double(a)), Ok(Val::Double(d)), Ok(Val::Single(s))) => {
            vk_check!(a.to_bits() == (x.to_bits() & 0x7fff_ffff_ffff_ffff), "C02: ABS(Double) clears the sign");
            vk_check!(d.to_bits() == x.to_bits() && (s.to_bits() == (x as f32).to_bits() || x.is_nan()), "C02: CDBL/CSNG(Double)");
        }
        _ => vk_check!(false, "C02: ABS keeps the argument type; CDBL yields Double; CSNG yields Single"),
    }
    vk_cover!(true, "reach: numeric functions");
});

// ---------------------------------------------------------------------------------------------------------------
// C07: string functions count in CHARACTERS. Strings are fixed (symbolic strings are out of CBMC's reach here), every
// numeric argument is symbolic over its whole type; the oracle works on the character array.

const S_CHARS: [char; 4] = ['A', '\u{e9}', 'Z', '\u{1f36a}']; // 1, 2, 1 and 4 bytes
const S_TEXT: &str = "A\u{e9}Z\u{1f36a}";

fn expect_chars(got: Result<Val>, from: usize, to: usize) {
    // the expected result is S_CHARS[from..to]
    match got {
        Ok(Val::String(s)) => {
            let mut n = 0;
            let mut ok = true;
            for (i, ch) in s.chars().enumerate() {
                if from + i >= to || ch != S_CHARS[from + i] {
                    ok = false;
                }
                n += 1;
            }
            vk_check!(ok && n == to - from, "C07: the function must return exactly the documented substring, counted in characters");
        }
        _ => vk_check!(false, "C07: a string function with valid arguments must return a string"),
    }
}

//@ prop: C07
//@ tier: quick
//@ unwind: 8
//@ encodes: Function::left; Function::right; usize::try_from(Val)
//@ bounds: string fixed to the 4 characters A, e-acute, Z, cookie emoji (1, 2, 1 and 4 bytes); length argument any Integer
vk_harness!(c07_left_right_count_characters, {
    let n = vk::any_i16();
    let l = Function::left(Val::String(S_TEXT.into()), Val::Integer(n));
    let r = Function::right(Val::String(S_TEXT.into()), Val::Integer(n));
    if n < 0 {
        vk_check!(l.is_err() && r.is_err(), "C07: a negative length is a BASIC error");
    } else {
        let k = if (n as usize) < 4 { n as usize } else { 4 };
        expect_chars(l, 0, k);
        expect_chars(r, 4 - k, 4);
    }
    vk_cover!(n == 2, "reach: split between multi-byte characters");
    vk_cover!(n > 4, "reach: longer than the string");
});

fn mid_case(with_len: bool) {
    let (pos, len) = (vk::any_i16(), vk::any_i16());
    let mut args: Stack<Val> = Stack::new("X");
    args.push(Val::String(S_TEXT.into())).unwrap();
    args.push(Val::Integer(pos)).unwrap();
    if with_len {
        args.push(Val::Integer(len)).unwrap();
    }
    let got = Function::mid(args);
    vk_cover!(got.is_ok(), "reach: mid ok");
    if pos <= 0 || (with_len && len < 0) {
        vk_check!(got.is_err(), "C07: position 0 or a negative argument is a BASIC error");
    } else {
        // begins with the character in position `pos` (1-based); nothing when that is past the end
        let from = if (pos as usize) <= 4 { pos as usize - 1 } else { 4 };
        let avail = 4 - from;
        let take = if with_len && (len as usize) < avail { len as usize } else { avail };
        expect_chars(got, from, from + take);
    }
}

//@ prop: C07
//@ tier: quick
//@ unwind: 8
//@ encodes: Function::mid (two-argument form); Stack::pop; usize::try_from(Val)
//@ bounds: string fixed to the 4 characters A, e-acute, Z, cookie emoji; position any Integer
vk_harness!(c07_mid_from_position, {
    mid_case(false);
});

//@ prop: C07
//@ tier: thorough
//@ unwind: 8
//@ encodes: Function::mid (three-argument form); Stack::pop; u16::try_from(Val); usize::try_from(Val)
//@ bounds: string fixed to the 4 characters A, e-acute, Z, cookie emoji; position and length any Integer
vk_harness!(c07_mid_with_length, {
    mid_case(true);
});

const H_CHARS: [char; 5] = ['A', 'B', '\u{e9}', 'A', 'B'];
const H_TEXT: &str = "AB\u{e9}AB";

//@ prop: C07
//@ tier: thorough
//@ unwind: 10
//@ encodes: Function::instr; Stack::pop; i16::try_from(Val)
//@ bounds: searched string fixed to A B e-acute A B; pattern one of B, AB, e-acute, Z (absent), "" (symbolic choice); start position any Integer >= 0, or omitted
vk_harness!(c07_instr_positions_are_characters, {
    let which = vk::any_below(5);
    let (pat, pat_chars): (&str, &[char]) = match which {
        0 => ("B", &['B']),
        1 => ("AB", &['A', 'B']),
        2 => ("\u{e9}", &['\u{e9}']),
        3 => ("Z", &['Z']),
        _ => ("", &[]),
    };
    let has_start = vk::any_bool();
    let start = vk::any_i16();
    vk::assume(start >= 0);
    let mut args: Stack<Val> = Stack::new("X");
    if has_start {
        args.push(Val::Integer(start)).unwrap();
    }
    args.push(Val::String(H_TEXT.into())).unwrap();
    args.push(Val::String(pat.into())).unwrap();
    let got = Function::instr(args);
    let from = if has_start { start as usize } else { 1 };
    if from == 0 {
        vk_check!(got.is_err(), "C07: INSTR with start 0 is a BASIC error");
    } else {
        // reference: first character position p >= from where the pattern matches; 0 if none (manual: "Returns 0 if not found")
        let mut want = 0usize;
        let mut p = 5usize;
        while p >= 1 {
            if p >= from && p - 1 + pat_chars.len() <= 5 {
                let mut m = true;
                let mut j = 0;
                while j < pat_chars.len() {
                    if H_CHARS[p - 1 + j] != pat_chars[j] {
                        m = false;
                    }
                    j += 1;
                }
                if m {
                    want = p;
                }
            }
            p -= 1;
        }
        match got {
            Ok(Val::Integer(n)) => vk_check!(n as usize == want, "C07: INSTR returns the character position of the first match at or after the start, 0 if there is none"),
            _ => vk_check!(false, "C07: INSTR with valid arguments returns an Integer"),
        }
    }
    vk_cover!(which == 3 && from == 1, "reach: pattern absent");
    vk_cover!(which == 1 && from == 2, "reach: second occurrence");
});
