//! In-module harnesses for `mach::val` (real std build). C02: numeric conversions with range checks.
use super::*;
use crate::lang::vh_error as ec;
use crate::mach::vh_operation::{any_n, N};
use crate::vk;
use std::convert::TryFrom;

fn expect_overflow<T>(got: std::result::Result<T, Error>) {
    match got {
        Err(e) => vk_check!(ec::code_of(&e) == ec::OVERFLOW, "C02: out-of-range conversion must be OVERFLOW"),
        Ok(_) => vk_check!(false, "C02: out-of-range value was converted silently"),
    }
}

/// floor(x) as an exact integer in i128, when |x| < 2^100 (enough for every target type here); characterised without `floor`:
/// n <= x < n+1 is checked by the caller through the float comparison.
fn in_range_f64(x: f64, lo: f64, hi_excl: f64) -> bool {
    x >= lo && x < hi_excl
}

//@ prop: C02
//@ tier: quick
//@ unwind: 2
//@ encodes: <u16 as TryFrom<Val>>::try_from; <LineNumber as TryFrom<Val>>::try_from
//@ bounds: value any of Integer/Single/Double with all bit patterns
vk_harness!(c02_conv_u16, {
    let v = any_n();
    let got = u16::try_from(v.val());
    vk_cover!(got.is_ok(), "reach: u16 ok");
    vk_cover!(got.is_err(), "reach: u16 err");
    let x: f64 = match v {
        N::I(n) => n as f64,
        N::S(n) => n as f64,
        N::D(n) => n,
    };
    if in_range_f64(x, 0.0, 65536.0) {
        match got {
            Ok(n) => vk_check!((n as f64) <= x && x < (n as f64) + 1.0, "C02: conversion to u16 must floor"),
            Err(_) => vk_check!(false, "C02: in-range value rejected by the u16 conversion"),
        }
    } else {
        expect_overflow(got);
    }
});

//@ prop: C02
//@ tier: quick
//@ unwind: 2
//@ encodes: <u32 as TryFrom<Val>>::try_from (Integer and Double arms; used by CHR$ and STRING$)
//@ bounds: value Integer or Double with all bit patterns
//@ outside: the Single arm compares against u32::MAX as f32 = 2^32 (inclusive) and saturates: a documented-behaviour question, not asserted
vk_harness!(c02_conv_u32, {
    let v = any_n();
    vk::assume(!matches!(v, N::S(_)));
    let got = u32::try_from(v.val());
    vk_cover!(got.is_ok(), "reach: u32 ok");
    vk_cover!(got.is_err(), "reach: u32 err");
    let x: f64 = match v {
        N::I(n) => n as f64,
        N::S(n) => n as f64,
        N::D(n) => n,
    };
    if in_range_f64(x, 0.0, 4294967296.0) {
        match got {
            Ok(n) => vk_check!((n as f64) <= x && x < (n as f64) + 1.0, "C02: conversion to u32 must floor"),
            Err(_) => vk_check!(false, "C02: in-range value rejected by the u32 conversion"),
        }
    } else {
        expect_overflow(got);
    }
});

//@ prop: C02
//@ tier: quick
//@ unwind: 2
//@ encodes: <f32 as TryFrom<Val>>::try_from; <f64 as TryFrom<Val>>::try_from; Function::cdbl; Function::csng (via the same casts)
//@ bounds: value any of Integer/Single/Double with all bit patterns
vk_harness!(c02_conv_float, {
    let v = any_n();
    match (v, f32::try_from(v.val()), f64::try_from(v.val())) {
        (N::I(n), Ok(s), Ok(d)) => {
            vk_check!(s == n as f32 && d == n as f64, "C02: Integer to float conversion must be exact");
        }
        (N::S(n), Ok(s), Ok(d)) => {
            vk_check!(s.to_bits() == n.to_bits(), "C02: Single to Single must be the identity");
            vk_check!(d.to_bits() == (n as f64).to_bits() || n.is_nan(), "C02: Single to Double must be exact");
        }
        (N::D(n), Ok(s), Ok(d)) => {
            vk_check!(d.to_bits() == n.to_bits(), "C02: Double to Double must be the identity");
            vk_check!(s.to_bits() == (n as f32).to_bits() || n.is_nan(), "C02: Double to Single rounds to nearest");
        }
        _ => vk_check!(false, "C02: numeric value rejected by a float conversion"),
    }
    vk_cover!(true, "reach: conv float");
});

//@ prop: C02
//@ tier: quick
//@ unwind: 8
//@ encodes: every TryFrom<Val> numeric conversion on String / Return / Next
//@ bounds: String fixed to "A"; Return/Next addresses symbolic
vk_harness!(c02_conv_mismatch, {
    let k = vk::any_below(3);
    let mk = || match k {
        0 => Val::String("A".into()),
        1 => Val::Return(vk::any_usize()),
        _ => Val::Next(vk::any_usize()),
    };
    let codes = [
        i16::try_from(mk()).err().map(|e| ec::code_of(&e)),
        u16::try_from(mk()).err().map(|e| ec::code_of(&e)),
        u32::try_from(mk()).err().map(|e| ec::code_of(&e)),
        usize::try_from(mk()).err().map(|e| ec::code_of(&e)),
        f32::try_from(mk()).err().map(|e| ec::code_of(&e)),
        f64::try_from(mk()).err().map(|e| ec::code_of(&e)),
    ];
    let mut i = 0;
    while i < 6 {
        vk_check!(codes[i] == Some(ec::TYPE_MISMATCH), "C02: converting a non-numeric value must be TYPE MISMATCH");
        i += 1;
    }
    vk_cover!(k == 2, "reach: conv mismatch next");
});
