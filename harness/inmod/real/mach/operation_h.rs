//! In-module harnesses for `mach::operation` (real std build). C08: checked 16-bit Integer arithmetic.
use super::*;
use crate::lang::vh_error as ec;
use crate::vk;

/// Oracle shared by the C08 binary-operator harnesses: `exact` is the mathematically exact result in i32.
/// The implementation must return exactly that Integer when it fits, and OVERFLOW otherwise.
fn expect_exact_or_overflow(got: Result<Val>, exact: i32) {
    let fits = exact >= i16::MIN as i32 && exact <= i16::MAX as i32;
    match got {
        Ok(Val::Integer(n)) => {
            vk_check!(fits, "C08: Integer result returned although the exact result is out of range (wrapped/truncated)");
            vk_check!(n as i32 == exact, "C08: Integer result differs from the exact result");
        }
        Ok(_) => vk_check!(false, "C08: Integer op Integer did not yield an Integer"),
        Err(e) => {
            vk_check!(!fits, "C08: error raised although the exact result fits in -32768..32767");
            vk_check!(ec::code_of(&e) == ec::OVERFLOW, "C08: out-of-range result must be OVERFLOW");
        }
    }
}

//@ prop: C08
//@ tier: quick
//@ unwind: 2
//@ encodes: Operation::sum (Integer,Integer arm)
//@ bounds: all 2^32 operand pairs
vk_harness!(c08_sum, {
    let (l, r) = (vk::any_i16(), vk::any_i16());
    let got = Operation::sum(Val::Integer(l), Val::Integer(r));
    vk_cover!(got.is_ok(), "reach: sum ok");
    vk_cover!(got.is_err(), "reach: sum err");
    expect_exact_or_overflow(got, l as i32 + r as i32);
});

//@ prop: C08
//@ tier: quick
//@ unwind: 2
//@ encodes: Operation::subtract (Integer,Integer arm)
//@ bounds: all 2^32 operand pairs
vk_harness!(c08_subtract, {
    let (l, r) = (vk::any_i16(), vk::any_i16());
    let got = Operation::subtract(Val::Integer(l), Val::Integer(r));
    vk_cover!(got.is_ok(), "reach: subtract ok");
    vk_cover!(got.is_err(), "reach: subtract err");
    expect_exact_or_overflow(got, l as i32 - r as i32);
});

//@ prop: C08
//@ tier: quick
//@ unwind: 2
//@ encodes: Operation::multiply (Integer,Integer arm)
//@ bounds: all 2^32 operand pairs
vk_harness!(c08_multiply, {
    let (l, r) = (vk::any_i16(), vk::any_i16());
    let got = Operation::multiply(Val::Integer(l), Val::Integer(r));
    vk_cover!(got.is_ok(), "reach: multiply ok");
    vk_cover!(got.is_err(), "reach: multiply err");
    expect_exact_or_overflow(got, l as i32 * r as i32);
});

//@ prop: C08
//@ tier: quick
//@ unwind: 2
//@ encodes: Operation::divint; <i16 as TryFrom<Val>>::try_from (Integer arm)
//@ bounds: all 2^32 operand pairs
vk_harness!(c08_divint, {
    let (l, r) = (vk::any_i16(), vk::any_i16());
    let got = Operation::divint(Val::Integer(l), Val::Integer(r));
    vk_cover!(got.is_ok(), "reach: divint ok");
    vk_cover!(got.is_err(), "reach: divint err");
    if r == 0 {
        match got {
            Err(e) => vk_check!(ec::code_of(&e) == ec::DIVISION_BY_ZERO, "C08: x \\ 0 must be DIVISION BY ZERO"),
            Ok(_) => vk_check!(false, "C08: x \\ 0 returned a value"),
        }
    } else {
        // BASIC integer division truncates toward zero (manual ch.1: 10\3 = 3)
        expect_exact_or_overflow(got, (l as i32) / (r as i32));
    }
});

//@ prop: C08
//@ tier: quick
//@ unwind: 2
//@ encodes: Operation::remainder; <i16 as TryFrom<Val>>::try_from (Integer arm)
//@ bounds: all 2^32 operand pairs
vk_harness!(c08_remainder, {
    let (l, r) = (vk::any_i16(), vk::any_i16());
    let got = Operation::remainder(Val::Integer(l), Val::Integer(r));
    vk_cover!(got.is_ok(), "reach: remainder ok");
    vk_cover!(got.is_err(), "reach: remainder err");
    if r == 0 {
        match got {
            Err(e) => vk_check!(ec::code_of(&e) == ec::DIVISION_BY_ZERO, "C08: x MOD 0 must be DIVISION BY ZERO"),
            Ok(_) => vk_check!(false, "C08: x MOD 0 returned a value"),
        }
    } else {
        // the exact remainder always fits (|l MOD r| < |r|), so an error here is never "appropriate"
        expect_exact_or_overflow(got, (l as i32) % (r as i32));
    }
});

/// Exact l^r for r >= 0, or None when it does not fit in i16. Loop of at most 15 iterations.
fn ref_pow(l: i16, r: i16) -> Option<i16> {
    if r == 0 {
        return Some(1);
    }
    match l {
        0 => Some(0),
        1 => Some(1),
        -1 => Some(if r % 2 == 0 { 1 } else { -1 }),
        _ => {
            if r >= 16 {
                return None; // |l| >= 2 and r >= 16: |l^r| >= 65536
            }
            let mut acc: i64 = 1;
            let mut i = 0;
            while i < r {
                acc *= l as i64;
                if acc > 32767 || acc < -32768 {
                    return None; // |l| >= 2: once outside, it stays outside
                }
                i += 1;
            }
            Some(acc as i16)
        }
    }
}

//@ prop: C08
//@ tier: quick
//@ unwind: 18
//@ encodes: Operation::power (Integer,Integer arm; i16::checked_pow)
//@ bounds: base all of i16, exponent all of 0..=32767 (checked_pow is square-and-multiply: <= 16 iterations, unwinding assertion on)
vk_harness!(c08_power, {
    let (l, r) = (vk::any_i16(), vk::any_i16());
    vk::assume(r >= 0);
    let got = Operation::power(Val::Integer(l), Val::Integer(r));
    vk_cover!(got.is_ok(), "reach: power ok");
    vk_cover!(got.is_err(), "reach: power err");
    match (got, ref_pow(l, r)) {
        (Ok(Val::Integer(n)), Some(m)) => vk_check!(n == m, "C08: l^r differs from the exact power"),
        (Ok(Val::Integer(_)), None) => vk_check!(false, "C08: l^r returned although the exact power is out of range"),
        (Ok(_), _) => vk_check!(false, "C08: Integer ^ non-negative Integer did not yield an Integer"),
        (Err(e), None) => vk_check!(ec::code_of(&e) == ec::OVERFLOW, "C08: out-of-range power must be OVERFLOW"),
        (Err(_), Some(_)) => vk_check!(false, "C08: error raised although the exact power fits"),
    }
});

//@ prop: C08
//@ tier: quick
//@ unwind: 2
//@ encodes: Operation::negate (Integer arm)
//@ bounds: all 2^16 operands
vk_harness!(c08_negate, {
    let n = vk::any_i16();
    let got = Operation::negate(Val::Integer(n));
    vk_cover!(got.is_ok(), "reach: negate ok");
    expect_exact_or_overflow(got, -(n as i32));
});
