//! In-module harnesses for `mach::operation` (real std build). C08: checked 16-bit Integer arithmetic.
use super::*;
use crate::lang::vh_error as ec;
use crate::vk;

/// Oracle shared by the C08 binary-operator harnesses: `exact` is the mathematically exact result in i32.
/// The implementation must return exactly that Integer when it fits, and OVERFLOW otherwise.
fn expect_exact_or_overflow(got: Result<Val>, exact: i32) {
    let fits = exact >= i16::MIN as i32 && exact <= i16::MAX as i32;
    match got {
        Ok(Val::Integer(n)) => {
            vk_check!(fits, "C08: Integer result returned although the exact result is out of range (wrapped/truncated)");
            vk_check!(n as i32 == exact, "C08: Integer result differs from the exact result");
        }
        Ok(_) => vk_check!(false, "C08: Integer op Integer did not yield an Integer"),
        Err(e) => {
            vk_check!(!fits, "C08: error raised although the exact result fits in -32768..32767");
            vk_check!(ec::code_of(&e) == ec::OVERFLOW, "C08: out-of-range result must be OVERFLOW");
        }
    }
}

//@ prop: C08
//@ tier: quick
//@ unwind: 2
//@ encodes: Operation::sum (Integer,Integer arm)
//@ bounds: all 2^32 operand pairs
vk_harness!(c08_sum, {
    let (l, r) = (vk::any_i16(), vk::any_i16());
    let got = Operation::sum(Val::Integer(l), Val::Integer(r));
    vk_cover!(got.is_ok(), "reach: sum ok");
    vk_cover!(got.is_err(), "reach: sum err");
    expect_exact_or_overflow(got, l as i32 + r as i32);
});

//@ prop: C08
//@ tier: quick
//@ unwind: 2
//@ encodes: Operation::subtract (Integer,Integer arm)
//@ bounds: all 2^32 operand pairs
vk_harness!(c08_subtract, {
    let (l, r) = (vk::any_i16(), vk::any_i16());
    let got = Operation::subtract(Val::Integer(l), Val::Integer(r));
    vk_cover!(got.is_ok(), "reach: subtract ok");
    vk_cover!(got.is_err(), "reach: subtract err");
    expect_exact_or_overflow(got, l as i32 - r as i32);
});

//@ prop: C08
//@ tier: quick
//@ unwind: 2
//@ encodes: Operation::multiply (Integer,Integer arm)
//@ bounds: all 2^32 operand pairs
vk_harness!(c08_multiply, {
    let (l, r) = (vk::any_i16(), vk::any_i16());
    let got = Operation::multiply(Val::Integer(l), Val::Integer(r));
    vk_cover!(got.is_ok(), "reach: multiply ok");
    vk_cover!(got.is_err(), "reach: multiply err");
    expect_exact_or_overflow(got, l as i32 * r as i32);
});

//@ prop: C08
//@ tier: quick
//@ unwind: 2
//@ encodes: Operation::divint; <i16 as TryFrom<Val>>::try_from (Integer arm)
//@ bounds: all 2^32 operand pairs
vk_harness!(c08_divint, {
    let (l, r) = (vk::any_i16(), vk::any_i16());
    let got = Operation::divint(Val::Integer(l), Val::Integer(r));
    vk_cover!(got.is_ok(), "reach: divint ok");
    vk_cover!(got.is_err(), "reach: divint err");
    if r == 0 {
        match got {
            Err(e) => vk_check!(ec::code_of(&e) == ec::DIVISION_BY_ZERO, "C08: x \\ 0 must be DIVISION BY ZERO"),
            Ok(_) => vk_check!(false, "C08: x \\ 0 returned a value"),
        }
    } else {
        // BASIC integer division truncates toward zero (manual ch.1: 10\3 = 3)
        expect_exact_or_overflow(got, (l as i32) / (r as i32));
    }
});

//@ prop: C08
//@ tier: quick
//@ unwind: 2
//@ encodes: Operation::remainder; <i16 as TryFrom<Val>>::try_from (Integer arm)
//@ bounds: all 2^32 operand pairs
vk_harness!(c08_remainder, {
    let (l, r) = (vk::any_i16(), vk::any_i16());
    let got = Operation::remainder(Val::Integer(l), Val::Integer(r));
    vk_cover!(got.is_ok(), "reach: remainder ok");
    vk_cover!(got.is_err(), "reach: remainder err");
    if r == 0 {
        match got {
            Err(e) => vk_check!(ec::code_of(&e) == ec::DIVISION_BY_ZERO, "C08: x MOD 0 must be DIVISION BY ZERO"),
            Ok(_) => vk_check!(false, "C08: x MOD 0 returned a value"),
        }
    } else {
        // the exact remainder always fits (|l MOD r| < |r|), so an error here is never "appropriate"
        expect_exact_or_overflow(got, (l as i32) % (r as i32));
    }
});

/// Exact l^r for r >= 0, or None when it does not fit in i16. Loop of at most 15 iterations.
fn ref_pow(l: i16, r: i16) -> Option<i16> {
    if r == 0 {
        return Some(1);
    }
    match l {
        0 => Some(0),
        1 => Some(1),
        -1 => Some(if r % 2 == 0 { 1 } else { -1 }),
        _ => {
            if r >= 16 {
                return None; // |l| >= 2 and r >= 16: |l^r| >= 65536
            }
            let mut acc: i64 = 1;
            let mut i = 0;
            while i < r {
                acc *= l as i64;
                if acc > 32767 || acc < -32768 {
                    return None; // |l| >= 2: once outside, it stays outside
                }
                i += 1;
            }
            Some(acc as i16)
        }
    }
}

//@ prop: C08
//@ tier: quick
//@ unwind: 18
//@ encodes: Operation::power (Integer,Integer arm; i16::checked_pow)
//@ bounds: base all of i16, exponent all of 0..=32767 (checked_pow is square-and-multiply: <= 16 iterations, unwinding assertion on)
vk_harness!(c08_power, {
    let (l, r) = (vk::any_i16(), vk::any_i16());
    vk::assume(r >= 0);
    let got = Operation::power(Val::Integer(l), Val::Integer(r));
    vk_cover!(got.is_ok(), "reach: power ok");
    vk_cover!(got.is_err(), "reach: power err");
    match (got, ref_pow(l, r)) {
        (Ok(Val::Integer(n)), Some(m)) => vk_check!(n == m, "C08: l^r differs from the exact power"),
        (Ok(Val::Integer(_)), None) => vk_check!(false, "C08: l^r returned although the exact power is out of range"),
        (Ok(_), _) => vk_check!(false, "C08: Integer ^ non-negative Integer did not yield an Integer"),
        (Err(e), None) => vk_check!(ec::code_of(&e) == ec::OVERFLOW, "C08: out-of-range power must be OVERFLOW"),
        (Err(_), Some(_)) => vk_check!(false, "C08: error raised although the exact power fits"),
    }
});

//@ prop: C08
//@ tier: quick
//@ unwind: 2
//@ encodes: Operation::negate (Integer arm)
//@ bounds: all 2^16 operands
vk_harness!(c08_negate, {
    let n = vk::any_i16();
    let got = Operation::negate(Val::Integer(n));
    vk_cover!(got.is_ok(), "reach: negate ok");
    expect_exact_or_overflow(got, -(n as i32));
});

// ---------------------------------------------------------------------------------------------------------------
// C02: operator x operand-type matrix. Oracle = the manual's promotion rules (ch.1 "Expressions and Types"):
// Integer -> Single -> Double as needed; '/' on two Integers is computed in Single; '\', MOD and the logical operators work on
// floor-converted 16-bit Integers; relational operators yield Integer 0 or -1.

#[derive(Clone, Copy)]
pub(crate) enum N {
    I(i16),
    S(f32),
    D(f64),
}
pub(crate) fn any_n() -> N {
    match vk::any_below(3) {
        0 => N::I(vk::any_i16()),
        1 => N::S(vk::any_f32()),
        _ => N::D(vk::any_f64()),
    }
}
impl N {
    pub(crate) fn val(self) -> Val {
        match self {
            N::I(n) => Val::Integer(n),
            N::S(n) => Val::Single(n),
            N::D(n) => Val::Double(n),
        }
    }
    fn rank(self) -> u8 {
        match self {
            N::I(_) => 0,
            N::S(_) => 1,
            N::D(_) => 2,
        }
    }
    fn f32(self) -> f32 {
        match self {
            N::I(n) => n as f32,
            N::S(n) => n,
            N::D(n) => n as f32,
        }
    }
    fn f64(self) -> f64 {
        match self {
            N::I(n) => n as f64,
            N::S(n) => n as f64,
            N::D(n) => n,
        }
    }
    /// the documented conversion to a 16-bit Integer: floor, then range check
    fn int(self) -> Option<i16> {
        match self {
            N::I(n) => Some(n),
            N::S(x) => {
                if x >= -32768.0 && x < 32768.0 {
                    Some(x.floor() as i16)
                } else {
                    None
                }
            }
            N::D(x) => {
                if x >= -32768.0 && x < 32768.0 {
                    Some(x.floor() as i16)
                } else {
                    None
                }
            }
        }
    }
}
fn same32(a: f32, b: f32) -> bool {
    a.to_bits() == b.to_bits() || (a.is_nan() && b.is_nan())
}
fn same64(a: f64, b: f64) -> bool {
    a.to_bits() == b.to_bits() || (a.is_nan() && b.is_nan())
}

/// `+ - *`: result type is the wider operand type; value is the operation carried out at that type.
fn check_arith(got: Result<Val>, l: N, r: N, s: f32, d: f64) {
    let rank = if l.rank() > r.rank() { l.rank() } else { r.rank() };
    match (rank, got) {
        (0, Ok(Val::Integer(_))) => {}
        (0, Err(e)) => vk_check!(ec::code_of(&e) == ec::OVERFLOW, "C02: Integer op Integer may only fail with OVERFLOW"),
        (1, Ok(Val::Single(x))) => vk_check!(same32(x, s), "C02: mixed Integer/Single arithmetic must be carried out in Single"),
        (2, Ok(Val::Double(x))) => vk_check!(same64(x, d), "C02: arithmetic with a Double operand must be carried out in Double"),
        _ => vk_check!(false, "C02: result type is not the promoted operand type"),
    }
}

/// One (left type, right type) pair per harness for `+ - * / \\ MOD`: one symbolic adder/multiplier/divider pair per query is what
/// CaDiCaL finishes quickly; the whole 3x3 matrix in one query takes minutes (sum, subtract) or does not finish (multiply, divide).
fn any_of(kind: u8) -> N {
    match kind {
        0 => N::I(vk::any_i16()),
        1 => N::S(vk::any_f32()),
        _ => N::D(vk::any_f64()),
    }
}
fn check_divide(got: Result<Val>, l: N, r: N) {
    let rank = if l.rank() > r.rank() { l.rank() } else { r.rank() };
    match (rank, got) {
        // '/' on two Integers promotes both to Single first (manual ch.1); never an error (10/0 = inf)
        (0, Ok(Val::Single(x))) | (1, Ok(Val::Single(x))) => {
            vk_check!(same32(x, l.f32() / r.f32()), "C02: '/' without a Double operand must be computed in Single")
        }
        (2, Ok(Val::Double(x))) => vk_check!(same64(x, l.f64() / r.f64()), "C02: '/' with a Double operand must be computed in Double"),
        _ => vk_check!(false, "C02: '/' result type is not the documented one"),
    }
}
const DIVISORS: [i16; 5] = [0, 1, -2, 3, 10];
fn divisor_of(kind: u8, i: usize) -> N {
    match kind {
        0 => N::I(DIVISORS[i]),
        1 => N::S(DIVISORS[i] as f32 + if i >= 3 { 0.5 } else { 0.0 }),
        _ => N::D(DIVISORS[i] as f64 + if i >= 3 { 0.25 } else { 0.0 }),
    }
}
fn ref_divint(a: i16, b: i16) -> Option<i16> {
    let q = (a as i32) / (b as i32);
    if q > 32767 {
        None
    } else {
        Some(q as i16)
    }
}
fn ref_rem(a: i16, b: i16) -> Option<i16> {
    Some(((a as i32) % (b as i32)) as i16)
}
macro_rules! pair_harness {
    ($sum:ident, $sub:ident, $mul:ident, $div:ident, $divint:ident, $rem:ident, $lk:expr, $rk:expr) => {
        vk_harness!($sum, {
            let (l, r) = (any_of($lk), any_of($rk));
            let got = Operation::sum(l.val(), r.val());
            vk_cover!(got.is_ok(), "reach: sum pair");
            check_arith(got, l, r, l.f32() + r.f32(), l.f64() + r.f64());
        });
        vk_harness!($sub, {
            let (l, r) = (any_of($lk), any_of($rk));
            let got = Operation::subtract(l.val(), r.val());
            vk_cover!(got.is_ok(), "reach: subtract pair");
            check_arith(got, l, r, l.f32() - r.f32(), l.f64() - r.f64());
        });
        vk_harness!($mul, {
            let (l, r) = (any_of($lk), any_of($rk));
            let got = Operation::multiply(l.val(), r.val());
            vk_cover!(got.is_ok(), "reach: multiply pair");
            check_arith(got, l, r, l.f32() * r.f32(), l.f64() * r.f64());
        });
        vk_harness!($div, {
            // symbolic dividend, divisor drawn from a concrete set (a symbolic-by-symbolic float divider pair does not
            // finish: measured > 600 s even in f32); the divisor set is part of the bound
            let l = any_of($lk);
            let mut i = 0;
            while i < DIVISORS.len() {
                let r = divisor_of($rk, i);
                let got = Operation::divide(l.val(), r.val());
                vk_cover!(got.is_ok(), "reach: divide pair");
                check_divide(got, l, r);
                i += 1;
            }
        });
        vk_harness!($divint, {
            let (l, r) = (any_of($lk), any_of($rk));
            let got = Operation::divint(l.val(), r.val());
            vk_cover!(got.is_ok(), "reach: divint pair ok");
            vk_cover!(got.is_err(), "reach: divint pair err");
            check_int_op(got, l, r, ref_divint, true);
        });
        vk_harness!($rem, {
            let (l, r) = (any_of($lk), any_of($rk));
            let got = Operation::remainder(l.val(), r.val());
            vk_cover!(got.is_ok(), "reach: remainder pair ok");
            vk_cover!(got.is_err(), "reach: remainder pair err");
            check_int_op(got, l, r, ref_rem, true);
        });
    };
}
//@ prop: C02
//@ tier: quick
//@ unwind: 2
//@ encodes: Operation::sum (Integer,Integer arm)
//@ bounds: all bit patterns of both operands
//@ harness: c02_sum_ii
//@ prop: C02
//@ tier: quick
//@ unwind: 2
//@ encodes: Operation::subtract (Integer,Integer arm)
//@ bounds: all bit patterns of both operands
//@ harness: c02_subtract_ii
//@ prop: C02
//@ tier: quick
//@ unwind: 2
//@ encodes: Operation::multiply (Integer,Integer arm)
//@ bounds: all bit patterns of both operands
//@ harness: c02_multiply_ii
//@ prop: C02
//@ tier: thorough
//@ unwind: 7
//@ encodes: Operation::divide (Integer,Integer arm)
//@ bounds: dividend: all bit patterns; divisor: the 5 concrete values 0, 1, -2, 3(.5/.25), 10(.5/.25) of the right type
//@ harness: c02_divide_ii
//@ prop: C02
//@ tier: thorough
//@ unwind: 2
//@ encodes: Operation::divint; <i16 as TryFrom<Val>>::try_from (Integer,Integer arm)
//@ bounds: all bit patterns of both operands
//@ harness: c02_divint_ii
//@ prop: C02
//@ tier: thorough
//@ unwind: 2
//@ encodes: Operation::remainder; <i16 as TryFrom<Val>>::try_from (Integer,Integer arm)
//@ bounds: all bit patterns of both operands
//@ harness: c02_remainder_ii
pair_harness!(c02_sum_ii, c02_subtract_ii, c02_multiply_ii, c02_divide_ii, c02_divint_ii, c02_remainder_ii, 0, 0);

//@ prop: C02
//@ tier: quick
//@ unwind: 2
//@ encodes: Operation::sum (Integer,Single arm)
//@ bounds: all bit patterns of both operands
//@ harness: c02_sum_is
//@ prop: C02
//@ tier: quick
//@ unwind: 2
//@ encodes: Operation::subtract (Integer,Single arm)
//@ bounds: all bit patterns of both operands
//@ harness: c02_subtract_is
//@ prop: C02
//@ tier: quick
//@ unwind: 2
//@ encodes: Operation::multiply (Integer,Single arm)
//@ bounds: all bit patterns of both operands
//@ harness: c02_multiply_is
//@ prop: C02
//@ tier: thorough
//@ unwind: 7
//@ encodes: Operation::divide (Integer,Single arm)
//@ bounds: dividend: all bit patterns; divisor: the 5 concrete values 0, 1, -2, 3(.5/.25), 10(.5/.25) of the right type
//@ harness: c02_divide_is
//@ prop: C02
//@ tier: thorough
//@ unwind: 2
//@ encodes: Operation::divint; <i16 as TryFrom<Val>>::try_from (Integer,Single arm)
//@ bounds: all bit patterns of both operands
//@ harness: c02_divint_is
//@ prop: C02
//@ tier: thorough
//@ unwind: 2
//@ encodes: Operation::remainder; <i16 as TryFrom<Val>>::try_from (Integer,Single arm)
//@ bounds: all bit patterns of both operands
//@ harness: c02_remainder_is
pair_harness!(c02_sum_is, c02_subtract_is, c02_multiply_is, c02_divide_is, c02_divint_is, c02_remainder_is, 0, 1);

//@ prop: C02
//@ tier: quick
//@ unwind: 2
//@ encodes: Operation::sum (Integer,Double arm)
//@ bounds: all bit patterns of both operands
//@ harness: c02_sum_id
//@ prop: C02
//@ tier: quick
//@ unwind: 2
//@ encodes: Operation::subtract (Integer,Double arm)
//@ bounds: all bit patterns of both operands
//@ harness: c02_subtract_id
//@ prop: C02
//@ tier: thorough
//@ unwind: 2
//@ encodes: Operation::multiply (Integer,Double arm)
//@ bounds: all bit patterns of both operands
//@ harness: c02_multiply_id
//@ prop: C02
//@ tier: thorough
//@ unwind: 7
//@ encodes: Operation::divide (Integer,Double arm)
//@ bounds: dividend: all bit patterns; divisor: the 5 concrete values 0, 1, -2, 3(.5/.25), 10(.5/.25) of the right type
//@ harness: c02_divide_id
//@ prop: C02
//@ tier: thorough
//@ unwind: 2
//@ encodes: Operation::divint; <i16 as TryFrom<Val>>::try_from (Integer,Double arm)
//@ bounds: all bit patterns of both operands
//@ harness: c02_divint_id
//@ prop: C02
//@ tier: thorough
//@ unwind: 2
//@ encodes: Operation::remainder; <i16 as TryFrom<Val>>::try_from (Integer,Double arm)
//@ bounds: all bit patterns of both operands
//@ harness: c02_remainder_id
pair_harness!(c02_sum_id, c02_subtract_id, c02_multiply_id, c02_divide_id, c02_divint_id, c02_remainder_id, 0, 2);

//@ prop: C02
//@ tier: quick
//@ unwind: 2
//@ encodes: Operation::sum (Single,Integer arm)
//@ bounds: all bit patterns of both operands
//@ harness: c02_sum_si
//@ prop: C02
//@ tier: quick
//@ unwind: 2
//@ encodes: Operation::subtract (Single,Integer arm)
//@ bounds: all bit patterns of both operands
//@ harness: c02_subtract_si
//@ prop: C02
//@ tier: quick
//@ unwind: 2
//@ encodes: Operation::multiply (Single,Integer arm)
//@ bounds: all bit patterns of both operands
//@ harness: c02_multiply_si
//@ prop: C02
//@ tier: thorough
//@ unwind: 7
//@ encodes: Operation::divide (Single,Integer arm)
//@ bounds: dividend: all bit patterns; divisor: the 5 concrete values 0, 1, -2, 3(.5/.25), 10(.5/.25) of the right type
//@ harness: c02_divide_si
//@ prop: C02
//@ tier: thorough
//@ unwind: 2
//@ encodes: Operation::divint; <i16 as TryFrom<Val>>::try_from (Single,Integer arm)
//@ bounds: all bit patterns of both operands
//@ harness: c02_divint_si
//@ prop: C02
//@ tier: thorough
//@ unwind: 2
//@ encodes: Operation::remainder; <i16 as TryFrom<Val>>::try_from (Single,Integer arm)
//@ bounds: all bit patterns of both operands
//@ harness: c02_remainder_si
pair_harness!(c02_sum_si, c02_subtract_si, c02_multiply_si, c02_divide_si, c02_divint_si, c02_remainder_si, 1, 0);

//@ prop: C02
//@ tier: quick
//@ unwind: 2
//@ encodes: Operation::sum (Single,Single arm)
//@ bounds: all bit patterns of both operands
//@ harness: c02_sum_ss
//@ prop: C02
//@ tier: quick
//@ unwind: 2
//@ encodes: Operation::subtract (Single,Single arm)
//@ bounds: all bit patterns of both operands
//@ harness: c02_subtract_ss
//@ prop: C02
//@ tier: quick
//@ unwind: 2
//@ encodes: Operation::multiply (Single,Single arm)
//@ bounds: all bit patterns of both operands
//@ harness: c02_multiply_ss
//@ prop: C02
//@ tier: thorough
//@ unwind: 7
//@ encodes: Operation::divide (Single,Single arm)
//@ bounds: dividend: all bit patterns; divisor: the 5 concrete values 0, 1, -2, 3(.5/.25), 10(.5/.25) of the right type
//@ harness: c02_divide_ss
//@ prop: C02
//@ tier: thorough
//@ unwind: 2
//@ encodes: Operation::divint; <i16 as TryFrom<Val>>::try_from (Single,Single arm)
//@ bounds: all bit patterns of both operands
//@ harness: c02_divint_ss
//@ prop: C02
//@ tier: thorough
//@ unwind: 2
//@ encodes: Operation::remainder; <i16 as TryFrom<Val>>::try_from (Single,Single arm)
//@ bounds: all bit patterns of both operands
//@ harness: c02_remainder_ss
pair_harness!(c02_sum_ss, c02_subtract_ss, c02_multiply_ss, c02_divide_ss, c02_divint_ss, c02_remainder_ss, 1, 1);

//@ prop: C02
//@ tier: quick
//@ unwind: 2
//@ encodes: Operation::sum (Single,Double arm)
//@ bounds: all bit patterns of both operands
//@ harness: c02_sum_sd
//@ prop: C02
//@ tier: quick
//@ unwind: 2
//@ encodes: Operation::subtract (Single,Double arm)
//@ bounds: all bit patterns of both operands
//@ harness: c02_subtract_sd
//@ prop: C02
//@ tier: thorough
//@ unwind: 2
//@ encodes: Operation::multiply (Single,Double arm)
//@ bounds: all bit patterns of both operands
//@ harness: c02_multiply_sd
//@ prop: C02
//@ tier: thorough
//@ unwind: 7
//@ encodes: Operation::divide (Single,Double arm)
//@ bounds: dividend: all bit patterns; divisor: the 5 concrete values 0, 1, -2, 3(.5/.25), 10(.5/.25) of the right type
//@ harness: c02_divide_sd
//@ prop: C02
//@ tier: thorough
//@ unwind: 2
//@ encodes: Operation::divint; <i16 as TryFrom<Val>>::try_from (Single,Double arm)
//@ bounds: all bit patterns of both operands
//@ harness: c02_divint_sd
//@ prop: C02
//@ tier: thorough
//@ unwind: 2
//@ encodes: Operation::remainder; <i16 as TryFrom<Val>>::try_from (Single,Double arm)
//@ bounds: all bit patterns of both operands
//@ harness: c02_remainder_sd
pair_harness!(c02_sum_sd, c02_subtract_sd, c02_multiply_sd, c02_divide_sd, c02_divint_sd, c02_remainder_sd, 1, 2);

//@ prop: C02
//@ tier: quick
//@ unwind: 2
//@ encodes: Operation::sum (Double,Integer arm)
//@ bounds: all bit patterns of both operands
//@ harness: c02_sum_di
//@ prop: C02
//@ tier: quick
//@ unwind: 2
//@ encodes: Operation::subtract (Double,Integer arm)
//@ bounds: all bit patterns of both operands
//@ harness: c02_subtract_di
//@ prop: C02
//@ tier: thorough
//@ unwind: 2
//@ encodes: Operation::multiply (Double,Integer arm)
//@ bounds: all bit patterns of both operands
//@ harness: c02_multiply_di
//@ prop: C02
//@ tier: thorough
//@ unwind: 7
//@ encodes: Operation::divide (Double,Integer arm)
//@ bounds: dividend: all bit patterns; divisor: the 5 concrete values 0, 1, -2, 3(.5/.25), 10(.5/.25) of the right type
//@ harness: c02_divide_di
//@ prop: C02
//@ tier: thorough
//@ unwind: 2
//@ encodes: Operation::divint; <i16 as TryFrom<Val>>::try_from (Double,Integer arm)
//@ bounds: all bit patterns of both operands
//@ harness: c02_divint_di
//@ prop: C02
//@ tier: thorough
//@ unwind: 2
//@ encodes: Operation::remainder; <i16 as TryFrom<Val>>::try_from (Double,Integer arm)
//@ bounds: all bit patterns of both operands
//@ harness: c02_remainder_di
pair_harness!(c02_sum_di, c02_subtract_di, c02_multiply_di, c02_divide_di, c02_divint_di, c02_remainder_di, 2, 0);

//@ prop: C02
//@ tier: quick
//@ unwind: 2
//@ encodes: Operation::sum (Double,Single arm)
//@ bounds: all bit patterns of both operands
//@ harness: c02_sum_ds
//@ prop: C02
//@ tier: quick
//@ unwind: 2
//@ encodes: Operation::subtract (Double,Single arm)
//@ bounds: all bit patterns of both operands
//@ harness: c02_subtract_ds
//@ prop: C02
//@ tier: thorough
//@ unwind: 2
//@ encodes: Operation::multiply (Double,Single arm)
//@ bounds: all bit patterns of both operands
//@ harness: c02_multiply_ds
//@ prop: C02
//@ tier: thorough
//@ unwind: 7
//@ encodes: Operation::divide (Double,Single arm)
//@ bounds: dividend: all bit patterns; divisor: the 5 concrete values 0, 1, -2, 3(.5/.25), 10(.5/.25) of the right type
//@ harness: c02_divide_ds
//@ prop: C02
//@ tier: thorough
//@ unwind: 2
//@ encodes: Operation::divint; <i16 as TryFrom<Val>>::try_from (Double,Single arm)
//@ bounds: all bit patterns of both operands
//@ harness: c02_divint_ds
//@ prop: C02
//@ tier: thorough
//@ unwind: 2
//@ encodes: Operation::remainder; <i16 as TryFrom<Val>>::try_from (Double,Single arm)
//@ bounds: all bit patterns of both operands
//@ harness: c02_remainder_ds
pair_harness!(c02_sum_ds, c02_subtract_ds, c02_multiply_ds, c02_divide_ds, c02_divint_ds, c02_remainder_ds, 2, 1);

//@ prop: C02
//@ tier: quick
//@ unwind: 2
//@ encodes: Operation::sum (Double,Double arm)
//@ bounds: all bit patterns of both operands
//@ harness: c02_sum_dd
//@ prop: C02
//@ tier: quick
//@ unwind: 2
//@ encodes: Operation::subtract (Double,Double arm)
//@ bounds: all bit patterns of both operands
//@ harness: c02_subtract_dd
//@ prop: C02
//@ tier: thorough
//@ unwind: 2
//@ encodes: Operation::multiply (Double,Double arm)
//@ bounds: all bit patterns of both operands
//@ harness: c02_multiply_dd
//@ prop: C02
//@ tier: thorough
//@ unwind: 7
//@ encodes: Operation::divide (Double,Double arm)
//@ bounds: dividend: all bit patterns; divisor: the 5 concrete values 0, 1, -2, 3(.5/.25), 10(.5/.25) of the right type
//@ harness: c02_divide_dd
//@ prop: C02
//@ tier: thorough
//@ unwind: 2
//@ encodes: Operation::divint; <i16 as TryFrom<Val>>::try_from (Double,Double arm)
//@ bounds: all bit patterns of both operands
//@ harness: c02_divint_dd
//@ prop: C02
//@ tier: thorough
//@ unwind: 2
//@ encodes: Operation::remainder; <i16 as TryFrom<Val>>::try_from (Double,Double arm)
//@ bounds: all bit patterns of both operands
//@ harness: c02_remainder_dd
pair_harness!(c02_sum_dd, c02_subtract_dd, c02_multiply_dd, c02_divide_dd, c02_divint_dd, c02_remainder_dd, 2, 2);

//@ prop: C02
//@ tier: quick
//@ unwind: 18
//@ encodes: Operation::power (result type of every numeric arm; value only for Integer^non-negative Integer under C08)
//@ bounds: both operands any of Integer/Single/Double with all bit patterns
//@ outside: the value of powf/powi (libm calls, over-approximated by CBMC)
vk_harness!(c02_power_types, {
    let (l, r) = (any_n(), any_n());
    let got = Operation::power(l.val(), r.val());
    let rank = if l.rank() > r.rank() { l.rank() } else { r.rank() };
    match (rank, got) {
        (0, Ok(Val::Integer(_))) => vk_check!(matches!(r, N::I(e) if e >= 0), "C02: Integer result of ^ needs a non-negative Integer exponent"),
        (0, Ok(Val::Single(_))) => vk_check!(matches!(r, N::I(e) if e < 0), "C02: Integer ^ Integer yields Single only for a negative exponent"),
        (0, Err(e)) => vk_check!(ec::code_of(&e) == ec::OVERFLOW, "C02: Integer ^ Integer may only fail with OVERFLOW"),
        (1, Ok(Val::Single(_))) => {}
        (2, Ok(Val::Double(_))) => {}
        _ => vk_check!(false, "C02: '^' result type is not the promoted operand type"),
    }
    vk_cover!(rank == 2, "reach: power double");
});

fn check_int_op(got: Result<Val>, l: N, r: N, f: fn(i16, i16) -> Option<i16>, zero_div: bool) {
    match (l.int(), r.int()) {
        (Some(a), Some(b)) => {
            if zero_div && b == 0 {
                match got {
                    Err(e) => vk_check!(ec::code_of(&e) == ec::DIVISION_BY_ZERO, "C02: zero divisor must be DIVISION BY ZERO"),
                    Ok(_) => vk_check!(false, "C02: zero divisor returned a value"),
                }
                return;
            }
            match (f(a, b), got) {
                (Some(x), Ok(Val::Integer(y))) => vk_check!(x == y, "C02: 16-bit Integer operator result differs from the documented one"),
                (None, Err(e)) => vk_check!(ec::code_of(&e) == ec::OVERFLOW, "C02: out-of-range 16-bit result must be OVERFLOW"),
                _ => vk_check!(false, "C02: 16-bit Integer operator: wrong result kind"),
            }
        }
        _ => match got {
            // an operand that does not floor into -32768..32767
            Err(e) => vk_check!(ec::code_of(&e) == ec::OVERFLOW, "C02: operand out of Integer range must be OVERFLOW"),
            Ok(_) => vk_check!(false, "C02: operand out of Integer range was silently accepted"),
        },
    }
}

macro_rules! int_op_harness {
    ($name:ident, $func:path, $zero_div:expr, $f:expr) => {
        vk_harness!($name, {
            let (l, r) = (any_n(), any_n());
            let got = $func(l.val(), r.val());
            vk_cover!(got.is_ok(), "reach: int op ok");
            vk_cover!(got.is_err(), "reach: int op err");
            check_int_op(got, l, r, $f, $zero_div);
        });
    };
}


// Quick-tier companion of the pair harnesses above for `* / \\ MOD`: the left operand symbolic over its whole type, the right one drawn
// from a concrete set. Constant operands let CBMC fold the multiplier/divider circuits, so all nine type
// pairs finish in about a minute each; the symbolic-by-symbolic versions are the thorough tier.
const CI: [i16; 5] = [0, 1, -2, 3, 32767];
const CS: [f32; 5] = [0.0, 1.0, -2.0, 3.5, 1e10];
const CD: [f64; 5] = [0.0, 1.0, -2.0, 3.25, 1e100];
fn const_of(kind: u8, i: usize) -> N {
    match kind {
        0 => N::I(CI[i]),
        1 => N::S(CS[i]),
        _ => N::D(CD[i]),
    }
}
fn muldiv_checks(l: N, r: N) {
    check_arith(Operation::multiply(l.val(), r.val()), l, r, l.f32() * r.f32(), l.f64() * r.f64());
    check_divide(Operation::divide(l.val(), r.val()), l, r);
    check_int_op(Operation::divint(l.val(), r.val()), l, r, ref_divint, true);
    check_int_op(Operation::remainder(l.val(), r.val()), l, r, ref_rem, true);
}
macro_rules! pairc_harness {
    ($name:ident, $lk:expr, $rk:expr) => {
        vk_harness!($name, {
            let mut i = 2;
            while i < 4 {
                muldiv_checks(any_of($lk), const_of($rk, i));
                i += 1;
            }
            vk_cover!(true, "reach: muldiv const");
        });
    };
}
//@ prop: C02
//@ tier: quick
//@ unwind: 7
//@ encodes: Operation::multiply, divide, divint, remainder (Integer,Integer arms); <i16 as TryFrom<Val>>::try_from
//@ bounds: left operand all bit patterns of its type, right operand one of the concrete values -2 and 3 / 3.5 / 3.25 of its type
//@ harness: c02_muldiv_c_ii
pairc_harness!(c02_muldiv_c_ii, 0, 0);

//@ prop: C02
//@ tier: quick
//@ unwind: 7
//@ encodes: Operation::multiply, divide, divint, remainder (Integer,Single arms); <i16 as TryFrom<Val>>::try_from
//@ bounds: left operand all bit patterns of its type, right operand one of the concrete values -2 and 3 / 3.5 / 3.25 of its type
//@ harness: c02_muldiv_c_is
pairc_harness!(c02_muldiv_c_is, 0, 1);

//@ prop: C02
//@ tier: quick
//@ unwind: 7
//@ encodes: Operation::multiply, divide, divint, remainder (Integer,Double arms); <i16 as TryFrom<Val>>::try_from
//@ bounds: left operand all bit patterns of its type, right operand one of the concrete values -2 and 3 / 3.5 / 3.25 of its type
//@ harness: c02_muldiv_c_id
pairc_harness!(c02_muldiv_c_id, 0, 2);

//@ prop: C02
//@ tier: quick
//@ unwind: 7
//@ encodes: Operation::multiply, divide, divint, remainder (Single,Integer arms); <i16 as TryFrom<Val>>::try_from
//@ bounds: left operand all bit patterns of its type, right operand one of the concrete values -2 and 3 / 3.5 / 3.25 of its type
//@ harness: c02_muldiv_c_si
pairc_harness!(c02_muldiv_c_si, 1, 0);

//@ prop: C02
//@ tier: quick
//@ unwind: 7
//@ encodes: Operation::multiply, divide, divint, remainder (Single,Single arms); <i16 as TryFrom<Val>>::try_from
//@ bounds: left operand all bit patterns of its type, right operand one of the concrete values -2 and 3 / 3.5 / 3.25 of its type
//@ harness: c02_muldiv_c_ss
pairc_harness!(c02_muldiv_c_ss, 1, 1);

//@ prop: C02
//@ tier: quick
//@ unwind: 7
//@ encodes: Operation::multiply, divide, divint, remainder (Single,Double arms); <i16 as TryFrom<Val>>::try_from
//@ bounds: left operand all bit patterns of its type, right operand one of the concrete values -2 and 3 / 3.5 / 3.25 of its type
//@ harness: c02_muldiv_c_sd
pairc_harness!(c02_muldiv_c_sd, 1, 2);

//@ prop: C02
//@ tier: quick
//@ unwind: 7
//@ encodes: Operation::multiply, divide, divint, remainder (Double,Integer arms); <i16 as TryFrom<Val>>::try_from
//@ bounds: left operand all bit patterns of its type, right operand one of the concrete values -2 and 3 / 3.5 / 3.25 of its type
//@ harness: c02_muldiv_c_di
pairc_harness!(c02_muldiv_c_di, 2, 0);

//@ prop: C02
//@ tier: quick
//@ unwind: 7
//@ encodes: Operation::multiply, divide, divint, remainder (Double,Single arms); <i16 as TryFrom<Val>>::try_from
//@ bounds: left operand all bit patterns of its type, right operand one of the concrete values -2 and 3 / 3.5 / 3.25 of its type
//@ harness: c02_muldiv_c_ds
pairc_harness!(c02_muldiv_c_ds, 2, 1);

//@ prop: C02
//@ tier: quick
//@ unwind: 7
//@ encodes: Operation::multiply, divide, divint, remainder (Double,Double arms); <i16 as TryFrom<Val>>::try_from
//@ bounds: left operand all bit patterns of its type, right operand one of the concrete values -2 and 3 / 3.5 / 3.25 of its type
//@ harness: c02_muldiv_c_dd
pairc_harness!(c02_muldiv_c_dd, 2, 2);

//@ prop: C02
//@ tier: quick
//@ unwind: 2
//@ encodes: Operation::and; <i16 as TryFrom<Val>>::try_from
//@ bounds: both operands any of Integer/Single/Double with all bit patterns
int_op_harness!(c02_and_matrix, Operation::and, false, |a, b| Some(a & b));

//@ prop: C02
//@ tier: quick
//@ unwind: 2
//@ encodes: Operation::or; <i16 as TryFrom<Val>>::try_from
//@ bounds: both operands any of Integer/Single/Double with all bit patterns
int_op_harness!(c02_or_matrix, Operation::or, false, |a, b| Some(a | b));

//@ prop: C02
//@ tier: quick
//@ unwind: 2
//@ encodes: Operation::xor; <i16 as TryFrom<Val>>::try_from
//@ bounds: both operands any of Integer/Single/Double with all bit patterns
int_op_harness!(c02_xor_matrix, Operation::xor, false, |a, b| Some(a ^ b));

//@ prop: C02
//@ tier: quick
//@ unwind: 18
//@ encodes: Operation::imp; <i16 as TryFrom<Val>>::try_from
//@ bounds: both operands any of Integer/Single/Double with all bit patterns
int_op_harness!(c02_imp_matrix, Operation::imp, false, |a, b| {
    // truth table of the manual, bit by bit: X IMP Y is 0 only for X=1,Y=0
    let mut out: u16 = 0;
    let mut i = 0;
    while i < 16 {
        let x = (a as u16 >> i) & 1;
        let y = (b as u16 >> i) & 1;
        let bit = if x == 1 && y == 0 { 0 } else { 1 };
        out |= bit << i;
        i += 1;
    }
    Some(out as i16)
});

//@ prop: C02
//@ tier: quick
//@ unwind: 18
//@ encodes: Operation::eqv; <i16 as TryFrom<Val>>::try_from
//@ bounds: both operands any of Integer/Single/Double with all bit patterns
int_op_harness!(c02_eqv_matrix, Operation::eqv, false, |a, b| {
    let mut out: u16 = 0;
    let mut i = 0;
    while i < 16 {
        let x = (a as u16 >> i) & 1;
        let y = (b as u16 >> i) & 1;
        let bit = if x == y { 1 } else { 0 };
        out |= bit << i;
        i += 1;
    }
    Some(out as i16)
});

//@ prop: C02
//@ tier: quick
//@ unwind: 2
//@ encodes: Operation::not; Operation::negate (Single/Double arms)
//@ bounds: operand any of Integer/Single/Double with all bit patterns
vk_harness!(c02_unary_matrix, {
    let v = any_n();
    match (v.int(), Operation::not(v.val())) {
        (Some(a), Ok(Val::Integer(x))) => vk_check!(x == !a, "C02: NOT must complement the floor-converted 16-bit Integer"),
        (None, Err(e)) => vk_check!(ec::code_of(&e) == ec::OVERFLOW, "C02: NOT of an out-of-range operand must be OVERFLOW"),
        _ => vk_check!(false, "C02: NOT: wrong result kind"),
    }
    match (v, Operation::negate(v.val())) {
        (N::I(_), _) => {} // C08
        (N::S(x), Ok(Val::Single(y))) => vk_check!(same32(-x, y), "C02: unary minus on Single"),
        (N::D(x), Ok(Val::Double(y))) => vk_check!(same64(-x, y), "C02: unary minus on Double"),
        _ => vk_check!(false, "C02: unary minus must keep the operand type"),
    }
    vk_cover!(true, "reach: unary");
});

/// Relational operators: Integer 0 or -1; the comparison is carried out at the promoted type.
fn rel_truth(l: N, r: N, lt: bool, eq_ok: bool) -> bool {
    let rank = if l.rank() > r.rank() { l.rank() } else { r.rank() };
    match rank {
        0 => {
            let (a, b) = (l.int().unwrap_or(0), r.int().unwrap_or(0));
            if lt { a < b || (eq_ok && a == b) } else { false }
        }
        1 => {
            let (a, b) = (l.f32(), r.f32());
            a < b || (eq_ok && a == b)
        }
        _ => {
            let (a, b) = (l.f64(), r.f64());
            a < b || (eq_ok && a == b)
        }
    }
}
fn check_rel(got: Result<Val>, truth: bool) {
    match got {
        Ok(Val::Integer(n)) => {
            vk_check!(n == 0 || n == -1, "C02: relational operators yield exactly 0 or -1");
            vk_check!((n == -1) == truth, "C02: relational operator result differs from the comparison at the promoted type");
        }
        _ => vk_check!(false, "C02: relational operator on numbers must yield an Integer"),
    }
}

//@ prop: C02
//@ tier: quick
//@ unwind: 2
//@ encodes: Operation::less; Operation::greater; Operation::less_equal; Operation::greater_equal; Operation::less_bool; Operation::less_equal_bool
//@ bounds: both operands any of Integer/Single/Double with all bit patterns
vk_harness!(c02_order_matrix, {
    let (l, r) = (any_n(), any_n());
    check_rel(Operation::less(l.val(), r.val()), rel_truth(l, r, true, false));
    check_rel(Operation::greater(l.val(), r.val()), rel_truth(r, l, true, false));
    check_rel(Operation::less_equal(l.val(), r.val()), rel_truth(l, r, true, true));
    check_rel(Operation::greater_equal(l.val(), r.val()), rel_truth(r, l, true, true));
    vk_cover!(true, "reach: order");
});

//@ prop: C02
//@ tier: quick
//@ unwind: 2
//@ encodes: Operation::equal; Operation::not_equal; Operation::equal_bool
//@ bounds: both operands any of Integer/Single/Double with all bit patterns
//@ outside: the tolerance the implementation applies to nearly-equal floating values (only exact equality, clear inequality and 0/-1 are asserted)
vk_harness!(c02_equality_matrix, {
    let (l, r) = (any_n(), any_n());
    let eq = Operation::equal(l.val(), r.val());
    let ne = Operation::not_equal(l.val(), r.val());
    let (e, n) = match (eq, ne) {
        (Ok(Val::Integer(e)), Ok(Val::Integer(n))) => (e, n),
        _ => {
            vk_check!(false, "C02: = and <> on numbers must yield Integers");
            return;
        }
    };
    vk_check!(e == 0 || e == -1, "C02: = yields exactly 0 or -1");
    vk_check!(n == 0 || n == -1, "C02: <> yields exactly 0 or -1");
    vk_check!(e != n, "C02: <> must be the complement of =");
    let rank = if l.rank() > r.rank() { l.rank() } else { r.rank() };
    match rank {
        0 => vk_check!((e == -1) == (l.int() == r.int()), "C02: Integer = Integer must be exact"),
        1 => {
            let (a, b) = (l.f32(), r.f32());
            if a.is_finite() && b.is_finite() {
                if a == b {
                    vk_check!(e == -1, "C02: equal Single values must compare equal");
                }
                if (a - b).abs() > 0.001 {
                    vk_check!(e == 0, "C02: clearly different Single values must not compare equal");
                }
            }
        }
        _ => {
            let (a, b) = (l.f64(), r.f64());
            if a.is_finite() && b.is_finite() {
                if a == b {
                    vk_check!(e == -1, "C02: equal Double values must compare equal");
                }
                if (a - b).abs() > 0.001 {
                    vk_check!(e == 0, "C02: clearly different Double values must not compare equal");
                }
            }
        }
    }
    vk_cover!(e == -1 && rank == 2, "reach: equal doubles");
});

/// A non-numeric stack value: a string, or one of the two control frames.
fn any_non_numeric() -> Val {
    match vk::any_below(3) {
        0 => Val::String("A".into()),
        1 => Val::Return(vk::any_usize()),
        _ => Val::Next(vk::any_usize()),
    }
}
/// `overflow_ok`: the numeric operand does not convert to a 16-bit Integer and the operator converts its operands
/// (\\ MOD AND OR XOR IMP EQV) — then OVERFLOW for that operand is as legitimate a BASIC error as TYPE MISMATCH.
fn expect_mismatch(got: Result<Val>, overflow_ok: bool) {
    match got {
        Err(e) => {
            let c = ec::code_of(&e);
            vk_check!(c == ec::TYPE_MISMATCH || (overflow_ok && c == ec::OVERFLOW), "C02: a non-numeric operand must raise TYPE MISMATCH")
        }
        Ok(_) => vk_check!(false, "C02: a non-numeric operand was accepted by a numeric operator"),
    }
}

fn apply_op(which: u8, l: Val, r: Val) -> Result<Val> {
    match which {
        0 => Operation::power(l, r),
        1 => Operation::multiply(l, r),
        2 => Operation::divide(l, r),
        3 => Operation::divint(l, r),
        4 => Operation::remainder(l, r),
        5 => Operation::sum(l, r),
        6 => Operation::subtract(l, r),
        7 => Operation::equal(l, r),
        8 => Operation::not_equal(l, r),
        9 => Operation::less(l, r),
        10 => Operation::less_equal(l, r),
        11 => Operation::greater(l, r),
        12 => Operation::greater_equal(l, r),
        13 => Operation::and(l, r),
        14 => Operation::or(l, r),
        15 => Operation::xor(l, r),
        16 => Operation::imp(l, r),
        _ => Operation::eqv(l, r),
    }
}
fn mismatch_group(from: u8, to: u8) {
    let left_bad = vk::any_bool();
    let bad_kind = vk::any_below(3);
    let good = any_n();
    let mut which = from;
    while which < to {
        let bad = match bad_kind {
            0 => Val::String("A".into()),
            1 => Val::Return(7),
            _ => Val::Next(9),
        };
        let (l, r) = if left_bad { (bad, good.val()) } else { (good.val(), bad) };
        let converts = which == 3 || which == 4 || which >= 13;
        expect_mismatch(apply_op(which, l, r), converts && good.int().is_none());
        which += 1;
    }
}

//@ prop: C02
//@ tier: quick
//@ unwind: 8
//@ encodes: Operation::power/multiply/divide/divint/remainder/sum with one non-numeric operand (String "A", Return, Next) on either side
//@ bounds: numeric side any of Integer/Single/Double with all bit patterns; non-numeric side fixed representatives
vk_harness!(c02_type_mismatch_a, {
    mismatch_group(0, 6);
    vk_cover!(true, "reach: mismatch a");
});

//@ prop: C02
//@ tier: quick
//@ unwind: 8
//@ encodes: Operation::subtract/equal/not_equal/less/less_equal/greater with one non-numeric operand on either side
//@ bounds: numeric side any of Integer/Single/Double with all bit patterns; non-numeric side fixed representatives
vk_harness!(c02_type_mismatch_b, {
    mismatch_group(6, 12);
    vk_cover!(true, "reach: mismatch b");
});

//@ prop: C02
//@ tier: quick
//@ unwind: 8
//@ encodes: Operation::greater_equal/and/or/xor/imp/eqv with one non-numeric operand on either side
//@ bounds: numeric side any of Integer/Single/Double with all bit patterns; non-numeric side fixed representatives
vk_harness!(c02_type_mismatch_c, {
    mismatch_group(12, 18);
    vk_cover!(true, "reach: mismatch c");
});
