//! In-module harnesses for `mach::var` on the real std build: the 255-CHARACTER limit of stored strings (C07).
//! The map operations behind a successful store are stubbed out (SipHash over real std maps is out of CBMC's reach); the
//! subject is the limit test in front of them.
use super::*;
use crate::lang::vh_error as ec;
use crate::vk;

const E_ACUTE_255: &str = "ééééééééééééééééééééééééééééééééééééééééééééééééééééééééééééééééééééééééééééééééééééééééééééééééééééééééééééééééééééééééééééééééééééééééééééééééééééééééééééééééééééééééééééééééééééééééééééééééééééééééééééééééééééééééééééééééééééééééééééééééééééééééééééééé";
const ASCII_256: &str = "0123456789abcdef0123456789abcdef0123456789abcdef0123456789abcdef0123456789abcdef0123456789abcdef0123456789abcdef0123456789abcdef0123456789abcdef0123456789abcdef0123456789abcdef0123456789abcdef0123456789abcdef0123456789abcdef0123456789abcdef0123456789abcdef";

pub(crate) fn update_val_stub(_this: &mut Var, _name: &Rc<str>, _value: Val) {}
pub(crate) fn random_state_stub() -> std::collections::hash_map::RandomState {
    unsafe { core::mem::transmute::<(u64, u64), std::collections::hash_map::RandomState>((1, 2)) }
}

fn limit_case(text: &'static str, chars: usize) {
    // `chars` characters taken from the front of `text` (1 or 2 bytes each)
    let bytes = text.char_indices().nth(chars).map_or(text.len(), |(i, _)| i);
    let s: Rc<str> = text[..bytes].into();
    let mut v = Var::new();
    let got = v.insert_string(&"A$".into(), Val::String(s));
    if chars <= 255 {
        vk_check!(got.is_ok(), "C07: a string of at most 255 CHARACTERS can be stored, however many bytes it takes");
    } else {
        match got {
            Err(e) => vk_check!(ec::code_of(&e) == 15, "C07: a string of more than 255 characters is STRING TOO LONG"),
            Ok(()) => vk_check!(false, "C07: a string of more than 255 characters was stored"),
        }
    }
    vk_cover!(true, "reach: limit case");
    core::mem::forget(v);
}

macro_rules! limit_harness {
    ($name:ident, $text:expr, $chars:expr) => {
        #[cfg_attr(kani, kani::proof)]
        #[cfg_attr(kani, kani::stub(std::mem::swap, crate::vk::typed_swap))]
        #[cfg_attr(kani, kani::stub(core::str::count::count_chars, crate::vk::naive_count_chars))]
        #[cfg_attr(kani, kani::stub(Var::update_val, update_val_stub))]
        #[cfg_attr(kani, kani::stub(std::collections::hash_map::RandomState::new, random_state_stub))]
        #[allow(dead_code)]
        pub(crate) fn $name() {
            limit_case($text, $chars);
        }
    };
}

//@ prop: C07
//@ tier: quick
//@ unwind: 520
//@ encodes: Var::insert_string (255-character limit)
//@ stubs: Var::update_val (the map update behind a successful store) = no-op; RandomState::new = fixed keys
//@ bounds: the concrete string of 128 two-byte characters (256 bytes)
//@ harness: c07_limit_128_two_byte_characters
limit_harness!(c07_limit_128_two_byte_characters, E_ACUTE_255, 128);

//@ prop: C07
//@ tier: quick
//@ unwind: 520
//@ encodes: Var::insert_string (255-character limit)
//@ stubs: Var::update_val = no-op; RandomState::new = fixed keys
//@ bounds: the concrete string of 255 two-byte characters (510 bytes)
//@ harness: c07_limit_255_two_byte_characters
limit_harness!(c07_limit_255_two_byte_characters, E_ACUTE_255, 255);

//@ prop: C07
//@ tier: quick
//@ unwind: 520
//@ encodes: Var::insert_string (255-character limit)
//@ stubs: Var::update_val = no-op; RandomState::new = fixed keys
//@ bounds: the concrete ASCII strings of 255 and of 256 characters
//@ harness: c07_limit_ascii_boundary
#[cfg_attr(kani, kani::proof)]
#[cfg_attr(kani, kani::stub(std::mem::swap, crate::vk::typed_swap))]
#[cfg_attr(kani, kani::stub(core::str::count::count_chars, crate::vk::naive_count_chars))]
#[cfg_attr(kani, kani::stub(Var::update_val, update_val_stub))]
#[cfg_attr(kani, kani::stub(std::collections::hash_map::RandomState::new, random_state_stub))]
#[allow(dead_code)]
pub(crate) fn c07_limit_ascii_boundary() {
    limit_case(ASCII_256, 255);
    limit_case(ASCII_256, 256);
}
