//! Child of `lang::line`: direct construction of lines (no lexing) and the RENUM reference collector.
use super::*;
use crate::lang::token::Token;
use crate::vk;

pub(crate) fn mk_line(number: LineNumber, tokens: Vec<Token>) -> Line {
    Line { number, tokens }
}
pub(crate) fn tokens_of(line: &Line) -> &Vec<Token> {
    &line.tokens
}
