//! Child of `lang::line`: direct construction of lines (no lexing) and the RENUM reference collector.
use super::*;
use crate::lang::token::Token;
use crate::vk;

pub(crate) fn mk_line(number: LineNumber, tokens: Vec<Token>) -> Line {
    Line { number, tokens }
}
pub(crate) fn tokens_of(line: &Line) -> &Vec<Token> {
    &line.tokens
}

// ---------------------------------------------------------------------------------------------------------------
// C14: the reference collector of RENUM, on statements built directly as AST values (no lexing / parsing).
use crate::vshim::collections::HashMap as VHashMap;
use crate::vshim::vec::BStore;

const MAXLN: u16 = 65529;

/// Runs the collector on one statement with the change map {from -> to}; returns the collected (column, number) list.
fn collect(stmt: &Statement, from: u16, to: u16) -> Vec<(Column, u16)> {
    let mut changes: VHashMap<u16, u16> = VHashMap::new();
    changes.insert(from, to);
    let mut visitor = RenumVisitor::new(&changes);
    stmt.accept(&mut visitor);
    let mut out: Vec<(Column, u16)> = Vec::new();
    for (c, n) in visitor.replace.iter() {
        out.push((c.clone(), *n));
    }
    out
}
fn num(col: &Column, n: u16) -> Expression {
    Expression::Single(col.clone(), n as f32)
}
/// one symbolic reference: (operand column, referenced number, renumbered line, its new number)
fn any_ref() -> (Column, u16, u16, u16) {
    let a = vk::any_u8() as usize;
    let w = 1 + (vk::any_below(5) as usize);
    let (t, from, to) = (vk::any_u16(), vk::any_u16(), vk::any_u16());
    vk::assume(t <= MAXLN && from <= MAXLN && to <= MAXLN);
    (a..a + w, t, from, to)
}
fn expect_one(got: &Vec<(Column, u16)>, col: &Column, hit: bool, to: u16) {
    if hit {
        vk_check!(got.len() == 1, "C14: a reference to a renumbered line must be collected exactly once");
        if let Some((c, n)) = got.get(0) {
            vk_check!(c.start == col.start && c.end == col.end && *n == to, "C14: the operand's own column must be rewritten to the line's new number");
        }
    } else {
        vk_check!(got.len() == 0, "C14: an operand that does not name a renumbered line must not be touched");
    }
}

macro_rules! single_ref_harness {
    ($name:ident, $build:expr) => {
        vk_harness!($name, {
            let (col, t, from, to) = any_ref();
            let stmt_col = 0..col.start;
            let build: fn(Column, Expression) -> Statement = $build;
            let stmt = build(stmt_col, num(&col, t));
            let got = collect(&stmt, from, to);
            expect_one(&got, &col, t == from, to);
            vk_cover!(t == from, "reach: reference hit");
            vk_cover!(t != from, "reach: reference miss");
            core::mem::forget(stmt);
        });
    };
}

//@ prop: C14
//@ tier: quick
//@ unwind: 8
//@ encodes: RenumVisitor::visit_statement / RenumVisitor::line on Statement::Goto
//@ bounds: operand: any line number <= 65529 at any column (< 256, width 1..5); change map: one entry with arbitrary numbers
single_ref_harness!(c14_refs_goto, |c, e| Statement::Goto(c, e));

//@ prop: C14
//@ tier: quick
//@ unwind: 8
//@ encodes: RenumVisitor::visit_statement / RenumVisitor::line on Statement::Gosub
//@ bounds: operand: any line number <= 65529 at any column (< 256, width 1..5); change map: one entry with arbitrary numbers
single_ref_harness!(c14_refs_gosub, |c, e| Statement::Gosub(c, e));

//@ prop: C14
//@ tier: quick
//@ unwind: 8
//@ encodes: RenumVisitor::visit_statement / RenumVisitor::line on Statement::Restore with an operand
//@ bounds: operand: any line number <= 65529 at any column (< 256, width 1..5); change map: one entry with arbitrary numbers
single_ref_harness!(c14_refs_restore, |c, e| Statement::Restore(c, e));

//@ prop: C14
//@ tier: quick
//@ unwind: 8
//@ encodes: RenumVisitor::visit_statement / RenumVisitor::line on Statement::Run with a line operand
//@ bounds: operand: any line number <= 65529 at any column (< 256, width 1..5); change map: one entry with arbitrary numbers
single_ref_harness!(c14_refs_run, |c, e| Statement::Run(c, e));

//@ prop: C14
//@ tier: quick
//@ unwind: 8
//@ encodes: RenumVisitor on Statement::If whose THEN branch is the GOTO the parser builds for 'IF x THEN n' (visited through AcceptVisitor)
//@ bounds: operand: any line number <= 65529 at any column; change map: one entry; predicate fixed to a literal
vk_harness!(c14_refs_if_then, {
    let (col, t, from, to) = any_ref();
    let mut st: BStore<Statement> = BStore::new();
    let mut then_stmt: BVec<Statement> = BVec::harness_on(&mut st);
    then_stmt.push(Statement::Goto(0..col.start, num(&col, t)));
    let stmt = Statement::If(0..2, Expression::Integer(3..4, 1), then_stmt, BVec::new());
    let got = collect(&stmt, from, to);
    expect_one(&got, &col, t == from, to);
    vk_cover!(t == from, "reach: reference hit");
    core::mem::forget(stmt);
});

//@ prop: C14
//@ tier: quick
//@ unwind: 8
//@ encodes: RenumVisitor on Statement::If whose ELSE branch is a GOTO ('IF x THEN .. ELSE n')
//@ bounds: operand: any line number <= 65529 at any column; change map: one entry; predicate fixed to a literal
vk_harness!(c14_refs_if_else, {
    let (col, t, from, to) = any_ref();
    let mut st: BStore<Statement> = BStore::new();
    let mut else_stmt: BVec<Statement> = BVec::harness_on(&mut st);
    else_stmt.push(Statement::Goto(0..col.start, num(&col, t)));
    let stmt = Statement::If(0..2, Expression::Integer(3..4, 1), BVec::new(), else_stmt);
    let got = collect(&stmt, from, to);
    expect_one(&got, &col, t == from, to);
    vk_cover!(t == from, "reach: reference hit");
    core::mem::forget(stmt);
});

fn two_refs(gosub: bool, ranged: u8) {
    // two operands at disjoint columns; the change map renumbers `from`
    let a = vk::any_u8() as usize;
    let (c1, c2) = (a..a + 2, a + 3..a + 5);
    let (t1, t2, from, to) = (vk::any_u16(), vk::any_u16(), vk::any_u16(), vk::any_u16());
    vk::assume(t1 <= MAXLN && t2 <= MAXLN && from <= MAXLN && to <= MAXLN);
    let mut st: BStore<Expression> = BStore::new();
    let stmt = match ranged {
        0 => {
            let mut ve: BVec<Expression> = BVec::harness_on(&mut st);
            ve.push(num(&c1, t1));
            ve.push(num(&c2, t2));
            if gosub {
                Statement::OnGosub(0..a, Expression::Integer(0..1, 1), ve)
            } else {
                Statement::OnGoto(0..a, Expression::Integer(0..1, 1), ve)
            }
        }
        1 => Statement::List(0..a, num(&c1, t1), num(&c2, t2)),
        _ => Statement::Delete(0..a, num(&c1, t1), num(&c2, t2)),
    };
    let got = collect(&stmt, from, to);
    let want = (t1 == from) as usize + (t2 == from) as usize;
    vk_check!(got.len() == want, "C14: every operand of a multi-operand statement that names a renumbered line must be collected, and no other");
    let mut i = 0;
    while i < got.len() {
        if let Some((c, n)) = got.get(i) {
            vk_check!(*n == to, "C14: collected operands get the line's new number");
            let is1 = c.start == c1.start && c.end == c1.end && t1 == from;
            let is2 = c.start == c2.start && c.end == c2.end && t2 == from;
            vk_check!(is1 || is2, "C14: a collected column must be the column of an operand that names the renumbered line");
        }
        i += 1;
    }
    if got.len() == 2 {
        if let (Some(x), Some(y)) = (got.get(0), got.get(1)) {
            vk_check!(x.0.start != y.0.start, "C14: both operands must be collected, not one twice");
        }
    }
    vk_cover!(want == 2, "reach: both operands hit");
    vk_cover!(want == 0, "reach: no operand hit");
    core::mem::forget(stmt);
}

//@ prop: C14
//@ tier: quick
//@ unwind: 8
//@ encodes: RenumVisitor on Statement::OnGoto with two targets
//@ bounds: two operands with arbitrary line numbers <= 65529; change map: one entry with arbitrary numbers
vk_harness!(c14_refs_on_goto, {
    two_refs(false, 0);
});

//@ prop: C14
//@ tier: quick
//@ unwind: 8
//@ encodes: RenumVisitor on Statement::OnGosub with two targets
//@ bounds: two operands with arbitrary line numbers <= 65529; change map: one entry with arbitrary numbers
vk_harness!(c14_refs_on_gosub, {
    two_refs(true, 0);
});

//@ prop: C14
//@ tier: quick
//@ unwind: 8
//@ encodes: RenumVisitor on Statement::List a-b
//@ bounds: two operands with arbitrary line numbers <= 65529; change map: one entry with arbitrary numbers
vk_harness!(c14_refs_list, {
    two_refs(false, 1);
});

//@ prop: C14
//@ tier: quick
//@ unwind: 8
//@ encodes: RenumVisitor on Statement::Delete a-b
//@ bounds: two operands with arbitrary line numbers <= 65529; change map: one entry with arbitrary numbers
vk_harness!(c14_refs_delete, {
    two_refs(false, 2);
});

//@ prop: C14
//@ tier: quick
//@ unwind: 8
//@ encodes: RenumVisitor on the operand-less forms as the parser builds them: RESTORE / RUN (sentinel -1), LIST / DELETE n- / LIST -n (default bounds 0 and 65529 at an empty column)
//@ bounds: change map: one entry with arbitrary numbers (in particular line 0 and line 65529); statement column arbitrary
vk_harness!(c14_refs_omitted_operands, {
    let a = vk::any_u8() as usize;
    let (from, to) = (vk::any_u16(), vk::any_u16());
    vk::assume(from <= MAXLN && to <= MAXLN);
    let kw = a..a + 4;
    let empty = a + 4..a + 4;
    let forms = [
        Statement::Restore(kw.clone(), Expression::Single(kw.clone(), -1.0)),
        Statement::Run(kw.clone(), Expression::Single(empty.clone(), -1.0)),
        Statement::List(kw.clone(), Expression::Single(empty.clone(), 0.0), Expression::Single(empty.clone(), MAXLN as f32)),
        Statement::Delete(kw.clone(), Expression::Single(empty.clone(), 0.0), Expression::Single(empty.clone(), MAXLN as f32)),
    ];
    let mut i = 0;
    while i < 4 {
        let got = collect(&forms[i], from, to);
        vk_check!(got.len() == 0, "C14: an operand that was not written is not a line reference and must not be rewritten");
        i += 1;
    }
    vk_cover!(from == 0, "reach: line 0 renumbered");
    vk_cover!(from == MAXLN, "reach: line 65529 renumbered");
    core::mem::forget(forms);
});
