//! In-module harnesses for `lang::lex` on the vshim build: the hand-written scanners and the operator-merging passes.
use super::*;
use crate::vk;
use crate::vshim::prelude::*;

fn op_of(k: u8) -> Operator {
    match k {
        0 => Operator::Less,
        1 => Operator::Greater,
        _ => Operator::Equal,
    }
}

fn two_character_operators(with_blanks: bool, x: u8, y: u8) {
    // Both characters are fixed per harness (one harness per pair; a symbolic operator makes the passes collect a symbolic number of
    // splice positions, which CBMC did not finish in 15 minutes); the number of blanks between them is symbolic.
    let blanks = vk::any_usize();
    vk::assume(blanks >= 1);
    let mut tokens: Vec<Token> = Vec::new();
    tokens.push(Token::Literal(Literal::Integer("1".into())));
    tokens.push(Token::Operator(op_of(x)));
    if with_blanks {
        tokens.push(Token::Whitespace(blanks));
    }
    tokens.push(Token::Operator(op_of(y)));
    tokens.push(Token::Literal(Literal::Integer("2".into())));
    BasicLexer::collapse_triples(&mut tokens);
    BasicLexer::collapse_doubles(&mut tokens);
    // the documented spellings: <> ; <= and =< ; >= and => ; each also with blanks between the two characters
    let merged = match (x, y) {
        (0, 1) => Some(Operator::NotEqual),
        (0, 2) | (2, 0) => Some(Operator::LessEqual),
        (1, 2) | (2, 1) => Some(Operator::GreaterEqual),
        _ => None,
    };
    match merged {
        Some(op) => {
            vk_check!(tokens.len() == 3, "C16: a two-character relational operator is one token, with or without blanks between its characters");
            match tokens.get(1) {
                Some(Token::Operator(got)) => vk_check!(*got == op, "C16: every spelling of a two-character relational operator means the same operator"),
                _ => vk_check!(false, "C16: the merged operator was lost"),
            }
        }
        None => {
            if !(x == 1 && y == 0) {
                // (> < is additionally accepted as <> by the implementation when written with blanks: not part of the documented set, not asserted)
                vk_check!(tokens.len() == if with_blanks { 5 } else { 4 }, "C16: two relational characters that do not form an operator stay apart");
            }
        }
    }
    vk_cover!(true, "reach: operator pair");
    core::mem::forget(tokens);
}

//@ prop: C16 C05
//@ tier: quick
//@ unwind: 10
//@ caps: VEC=6
//@ encodes: BasicLexer::collapse_triples; BasicLexer::collapse_doubles (relational operators)
//@ bounds: the character pair < < adjacent, between two literals
vk_harness!(c16_op_adjacent_lt_lt, {
    two_character_operators(false, 0, 0);
});

//@ prop: C16 C05
//@ tier: quick
//@ unwind: 10
//@ caps: VEC=6
//@ encodes: BasicLexer::collapse_triples; BasicLexer::collapse_doubles (relational operators)
//@ bounds: the character pair < > adjacent, between two literals
vk_harness!(c16_op_adjacent_lt_gt, {
    two_character_operators(false, 0, 1);
});

//@ prop: C16 C05
//@ tier: quick
//@ unwind: 10
//@ caps: VEC=6
//@ encodes: BasicLexer::collapse_triples; BasicLexer::collapse_doubles (relational operators)
//@ bounds: the character pair < = adjacent, between two literals
vk_harness!(c16_op_adjacent_lt_eq, {
    two_character_operators(false, 0, 2);
});

//@ prop: C16 C05
//@ tier: quick
//@ unwind: 10
//@ caps: VEC=6
//@ encodes: BasicLexer::collapse_triples; BasicLexer::collapse_doubles (relational operators)
//@ bounds: the character pair > < adjacent, between two literals
vk_harness!(c16_op_adjacent_gt_lt, {
    two_character_operators(false, 1, 0);
});

//@ prop: C16 C05
//@ tier: quick
//@ unwind: 10
//@ caps: VEC=6
//@ encodes: BasicLexer::collapse_triples; BasicLexer::collapse_doubles (relational operators)
//@ bounds: the character pair > > adjacent, between two literals
vk_harness!(c16_op_adjacent_gt_gt, {
    two_character_operators(false, 1, 1);
});

//@ prop: C16 C05
//@ tier: quick
//@ unwind: 10
//@ caps: VEC=6
//@ encodes: BasicLexer::collapse_triples; BasicLexer::collapse_doubles (relational operators)
//@ bounds: the character pair > = adjacent, between two literals
vk_harness!(c16_op_adjacent_gt_eq, {
    two_character_operators(false, 1, 2);
});

//@ prop: C16 C05
//@ tier: quick
//@ unwind: 10
//@ caps: VEC=6
//@ encodes: BasicLexer::collapse_triples; BasicLexer::collapse_doubles (relational operators)
//@ bounds: the character pair = < adjacent, between two literals
vk_harness!(c16_op_adjacent_eq_lt, {
    two_character_operators(false, 2, 0);
});

//@ prop: C16 C05
//@ tier: quick
//@ unwind: 10
//@ caps: VEC=6
//@ encodes: BasicLexer::collapse_triples; BasicLexer::collapse_doubles (relational operators)
//@ bounds: the character pair = > adjacent, between two literals
vk_harness!(c16_op_adjacent_eq_gt, {
    two_character_operators(false, 2, 1);
});

//@ prop: C16 C05
//@ tier: quick
//@ unwind: 10
//@ caps: VEC=6
//@ encodes: BasicLexer::collapse_triples; BasicLexer::collapse_doubles (relational operators)
//@ bounds: the character pair = = adjacent, between two literals
vk_harness!(c16_op_adjacent_eq_eq, {
    two_character_operators(false, 2, 2);
});

//@ prop: C16 C05
//@ tier: quick
//@ unwind: 10
//@ caps: VEC=6
//@ encodes: BasicLexer::collapse_triples; BasicLexer::collapse_doubles (relational operators)
//@ bounds: the character pair < < with any number (>= 1) of blanks between them, between two literals
vk_harness!(c16_op_blanks_lt_lt, {
    two_character_operators(true, 0, 0);
});

//@ prop: C16 C05
//@ tier: quick
//@ unwind: 10
//@ caps: VEC=6
//@ encodes: BasicLexer::collapse_triples; BasicLexer::collapse_doubles (relational operators)
//@ bounds: the character pair < > with any number (>= 1) of blanks between them, between two literals
vk_harness!(c16_op_blanks_lt_gt, {
    two_character_operators(true, 0, 1);
});

//@ prop: C16 C05
//@ tier: quick
//@ unwind: 10
//@ caps: VEC=6
//@ encodes: BasicLexer::collapse_triples; BasicLexer::collapse_doubles (relational operators)
//@ bounds: the character pair < = with any number (>= 1) of blanks between them, between two literals
vk_harness!(c16_op_blanks_lt_eq, {
    two_character_operators(true, 0, 2);
});

//@ prop: C16 C05
//@ tier: quick
//@ unwind: 10
//@ caps: VEC=6
//@ encodes: BasicLexer::collapse_triples; BasicLexer::collapse_doubles (relational operators)
//@ bounds: the character pair > < with any number (>= 1) of blanks between them, between two literals
vk_harness!(c16_op_blanks_gt_lt, {
    two_character_operators(true, 1, 0);
});

//@ prop: C16 C05
//@ tier: quick
//@ unwind: 10
//@ caps: VEC=6
//@ encodes: BasicLexer::collapse_triples; BasicLexer::collapse_doubles (relational operators)
//@ bounds: the character pair > > with any number (>= 1) of blanks between them, between two literals
vk_harness!(c16_op_blanks_gt_gt, {
    two_character_operators(true, 1, 1);
});

//@ prop: C16 C05
//@ tier: quick
//@ unwind: 10
//@ caps: VEC=6
//@ encodes: BasicLexer::collapse_triples; BasicLexer::collapse_doubles (relational operators)
//@ bounds: the character pair > = with any number (>= 1) of blanks between them, between two literals
vk_harness!(c16_op_blanks_gt_eq, {
    two_character_operators(true, 1, 2);
});

//@ prop: C16 C05
//@ tier: quick
//@ unwind: 10
//@ caps: VEC=6
//@ encodes: BasicLexer::collapse_triples; BasicLexer::collapse_doubles (relational operators)
//@ bounds: the character pair = < with any number (>= 1) of blanks between them, between two literals
vk_harness!(c16_op_blanks_eq_lt, {
    two_character_operators(true, 2, 0);
});

//@ prop: C16 C05
//@ tier: quick
//@ unwind: 10
//@ caps: VEC=6
//@ encodes: BasicLexer::collapse_triples; BasicLexer::collapse_doubles (relational operators)
//@ bounds: the character pair = > with any number (>= 1) of blanks between them, between two literals
vk_harness!(c16_op_blanks_eq_gt, {
    two_character_operators(true, 2, 1);
});

//@ prop: C16 C05
//@ tier: quick
//@ unwind: 10
//@ caps: VEC=6
//@ encodes: BasicLexer::collapse_triples; BasicLexer::collapse_doubles (relational operators)
//@ bounds: the character pair = = with any number (>= 1) of blanks between them, between two literals
vk_harness!(c16_op_blanks_eq_eq, {
    two_character_operators(true, 2, 2);
});

// ---------------------------------------------------------------------------------------------------------------
// Scanners on a small symbolic character queue

/// The lexically significant alphabet for numeric literals, plus a letter, a blank and a comma as followers.
fn alpha(k: u8) -> char {
    match k {
        0 => '0',
        1 => '1',
        2 => '7',
        3 => '9',
        4 => '.',
        5 => 'E',
        6 => 'e',
        7 => 'D',
        8 => 'd',
        9 => '+',
        10 => '-',
        11 => '!',
        12 => '#',
        13 => '%',
        14 => 'A',
        15 => ' ',
        _ => ',',
    }
}
const NALPHA: u8 = 17;

/// A lexer positioned on `n` symbolic characters (n concrete), the first one a digit or '.'.
fn lexer_on(n: usize, out: &mut [char; 6]) -> BasicLexer {
    let mut lx = BasicLexer { chars: VecDeque::default(), pending: VecDeque::default(), remark: false };
    let mut i = 0;
    while i < n {
        let k = vk::any_below(NALPHA);
        if i == 0 {
            vk::assume(k <= 4);
        }
        let c = alpha(k);
        out[i] = c;
        lx.chars.push_back(c);
        i += 1;
    }
    lx
}

fn number_returns(n: usize) {
    let mut text = [' '; 6];
    let mut lx = lexer_on(n, &mut text);
    let before = lx.chars.len();
    // every loop iteration pops one character and pushes back at most one: 3n+3 pops are more than any terminating scan needs
    crate::vshim::collections::set_fuel(3 * n + 3);
    let tok = lx.number();
    vk_check!(matches!(tok, Some(Token::Literal(_))), "C03: the numeric scanner always returns a literal");
    vk_check!(lx.chars.len() < before, "C03: the numeric scanner consumes at least one character (the lexer makes progress)");
    vk_cover!(true, "reach: number returned");
    core::mem::forget(lx);
    core::mem::forget(tok);
}

//@ prop: C03
//@ tier: quick
//@ unwind: 20
//@ kind: termination
//@ encodes: BasicLexer::number (loop with push-back)
//@ bounds: every string of 3 characters over 0 1 7 9 . E e D d + - ! # % A blank comma that starts with a digit or '.'; termination is decided by a progress budget of 3n+3 character pops (a terminating scan needs at most 2n) plus the unwinding assertion
vk_harness!(c03_number_scanner_returns_3, {
    number_returns(3);
});

//@ prop: C03
//@ tier: quick
//@ unwind: 20
//@ kind: termination
//@ encodes: BasicLexer::number (loop with push-back)
//@ bounds: every string of 4 characters over the numeric alphabet that starts with a digit or '.'; progress budget 3n+3 pops plus the unwinding assertion
vk_harness!(c03_number_scanner_returns_4, {
    number_returns(4);
});

fn lit_parts(t: &Option<Token>) -> (u8, String) {
    match t {
        Some(Token::Literal(Literal::Single(s))) => (1, s.clone()),
        Some(Token::Literal(Literal::Double(s))) => (2, s.clone()),
        Some(Token::Literal(Literal::Integer(s))) => (0, s.clone()),
        _ => (9, String::new()),
    }
}
fn lexer_on_text(text: &str, follower: Option<char>) -> BasicLexer {
    let mut lx = BasicLexer { chars: VecDeque::default(), pending: VecDeque::default(), remark: false };
    for c in text.chars() {
        lx.chars.push_back(c);
    }
    if let Some(f) = follower {
        lx.chars.push_back(f);
    }
    lx
}

fn number_relex_fixpoint(n: usize) {
    let mut text = [' '; 6];
    let mut lx = lexer_on(n, &mut text);
    let tok = lx.number();
    let (kind, s) = lit_parts(&tok);
    vk_check!(kind != 9, "C05: the numeric scanner returns a numeric literal");
    // LIST prints the literal's text followed by the rest of the line; it puts a blank between the literal and a following word.
    // Entering that text again must give the same literal (type included) and leave the same rest.
    let mut lx2 = BasicLexer { chars: VecDeque::default(), pending: VecDeque::default(), remark: false };
    let rest_len = lx.chars.len();
    let k = n - rest_len; // characters consumed by the literal
    // built back to front with push_front (a plain push in the deque model): rest, optional blank, literal text
    let mut j = n;
    while j > 0 {
        j -= 1;
        if j >= k {
            lx2.chars.push_front(text[j]);
        }
    }
    let inserted_blank = k < n && text[if k < 6 { k } else { 5 }].is_ascii_alphabetic();
    if inserted_blank {
        lx2.chars.push_front(' ');
    }
    let sb = s.as_bytes();
    let mut m = 8;
    while m > 0 {
        m -= 1;
        if m < sb.len() {
            lx2.chars.push_front(sb[m] as char);
        }
    }
    let tok2 = lx2.number();
    let (kind2, s2) = lit_parts(&tok2);
    vk_check!(s2 == s, "C05: the listed text of a numeric literal re-lexes to the same text");
    vk_check!(kind2 == kind, "C05: the listed text of a numeric literal re-lexes to a literal of the same type");
    vk_check!(lx2.chars.len() == rest_len + if inserted_blank { 1 } else { 0 }, "C05: re-lexing the listed literal leaves the same rest of the line");
    vk_cover!(kind == 0, "reach: integer literal");
    vk_cover!(kind == 2, "reach: double literal");
    vk_cover!(inserted_blank, "reach: literal followed by a word");
    core::mem::forget(lx);
    core::mem::forget(lx2);
}

//@ prop: C05
//@ tier: quick
//@ unwind: 20
//@ encodes: BasicLexer::number (twice: on the input and on the literal's listed text)
//@ bounds: every string of 3 characters over 0 1 7 9 . E e D d + - ! # % A blank comma starting with a digit or '.'; the re-entered text is the literal followed by the same rest (with the blank LIST inserts before a word)
vk_harness!(c05_number_relex_fixpoint_3, {
    number_relex_fixpoint(3);
});

//@ prop: C05
//@ tier: quick
//@ unwind: 20
//@ encodes: BasicLexer::number (twice: on the input and on the literal's listed text)
//@ bounds: every string of 4 characters over the numeric alphabet starting with a digit or '.'; the re-entered text is the literal followed by the same rest
vk_harness!(c05_number_relex_fixpoint_4, {
    number_relex_fixpoint(4);
});

/// The manual's typing rules (ch.1), applied to the literal's own text; None where two rules of the manual overlap.
fn manual_type(s: &str) -> Option<u8> {
    let b = s.as_bytes();
    let mut digits = 0;
    let (mut has_e, mut has_d, mut has_dot) = (false, false, false);
    let mut value: u32 = 0;
    let mut i = 0;
    while i < b.len() {
        let c = b[i];
        if c == b'E' {
            has_e = true;
        } else if c == b'D' {
            has_d = true;
        } else if c == b'.' {
            has_dot = true;
        } else if c >= b'0' && c <= b'9' && !has_e && !has_d {
            digits += 1;
            if value < 100000 {
                value = value * 10 + (c - b'0') as u32;
            }
        }
        i += 1;
    }
    match b.last() {
        Some(b'!') => return Some(1),
        Some(b'#') => return Some(2),
        Some(b'%') => return Some(0),
        _ => {}
    }
    if has_d && !has_e {
        return Some(2);
    }
    if has_e && !has_d {
        return if digits > 7 { None } else { Some(1) };
    }
    if has_e || has_d {
        return None;
    }
    if digits > 7 {
        return Some(2);
    }
    if has_dot {
        return Some(1);
    }
    Some(if value <= 32767 { 0 } else { 1 })
}

fn number_typing(n: usize) {
    let mut text = [' '; 6];
    let mut lx = lexer_on(n, &mut text);
    let tok = lx.number();
    let (kind, s) = lit_parts(&tok);
    if let Some(want) = manual_type(s.as_str()) {
        vk_check!(kind == want, "C02: an undecorated literal is typed by the manual's rules (E: Single, D: Double, decimal: Single, > 7 digits: Double, fits Integer: Integer, else Single)");
    }
    vk_cover!(kind == 0, "reach: integer literal");
    vk_cover!(kind == 1, "reach: single literal");
    vk_cover!(kind == 2, "reach: double literal");
    core::mem::forget(lx);
}

//@ prop: C02
//@ tier: quick
//@ unwind: 20
//@ encodes: BasicLexer::number (literal classification)
//@ bounds: every string of 4 characters over 0 1 7 9 . E e D d + - ! # % A blank comma starting with a digit or '.'
vk_harness!(c02_literal_typing_4, {
    number_typing(4);
});

// ---------------------------------------------------------------------------------------------------------------
// The other scanners: radix literals, blanks, string literals

fn scanner_alpha(k: u8) -> char {
    match k {
        0 => '&',
        1 => 'H',
        2 => 'h',
        3 => '0',
        4 => '7',
        5 => '9',
        6 => 'a',
        7 => 'F',
        8 => 'G',
        9 => ' ',
        10 => '\t',
        11 => '"',
        _ => ',',
    }
}

//@ prop: C03 C16 C05
//@ tier: quick
//@ unwind: 20
//@ kind: termination
//@ encodes: BasicLexer::radix
//@ bounds: '&' followed by 3 characters over & H h 0 7 9 a F G blank tab quote comma; progress budget + unwinding assertion
vk_harness!(c16_radix_scanner, {
    let mut lx = BasicLexer { chars: VecDeque::default(), pending: VecDeque::default(), remark: false };
    lx.chars.push_back('&');
    let mut t = [' '; 3];
    let mut i = 0;
    while i < 3 {
        t[i] = scanner_alpha(vk::any_below(13));
        lx.chars.push_back(t[i]);
        i += 1;
    }
    crate::vshim::collections::set_fuel(12);
    let tok = lx.radix();
    // reference: optional H/h selects hexadecimal, then the longest run of digits of that base, upper-cased
    let hex = t[0] == 'H' || t[0] == 'h';
    let mut want = String::new();
    let mut j = if hex { 1 } else { 0 };
    while j < 3 {
        let c = t[j].to_ascii_uppercase();
        let ok = (c >= '0' && c <= '7') || (hex && ((c >= '8' && c <= '9') || (c >= 'A' && c <= 'F')));
        if !ok {
            break;
        }
        want.push(c);
        j += 1;
    }
    match tok {
        Some(Token::Literal(Literal::Hex(s))) => vk_check!(hex && s == want, "C16: &H literals take hexadecimal digits of either case and list them in upper case"),
        Some(Token::Literal(Literal::Octal(s))) => vk_check!(!hex && s == want, "C16: & literals take octal digits"),
        _ => vk_check!(false, "C03: the radix scanner always returns a literal"),
    }
    vk_check!(lx.chars.len() == 3 - j, "C05: the radix scanner leaves exactly the characters after the digits");
    vk_cover!(hex && j == 3, "reach: two hex digits");
    vk_cover!(!hex && j == 0, "reach: empty octal literal");
    core::mem::forget(lx);
});

//@ prop: C03 C05
//@ tier: quick
//@ unwind: 20
//@ kind: termination
//@ encodes: BasicLexer::whitespace; BasicLexer::string
//@ bounds: 4 characters over the scanner alphabet, the first one a blank / tab (whitespace scanner) or a double quote (string scanner)
vk_harness!(c05_blank_and_string_scanners, {
    let mut lx = BasicLexer { chars: VecDeque::default(), pending: VecDeque::default(), remark: false };
    let is_string = vk::any_bool();
    let mut t = [' '; 4];
    let mut i = 0;
    while i < 4 {
        t[i] = scanner_alpha(vk::any_below(13));
        i += 1;
    }
    t[0] = if is_string { '"' } else if vk::any_bool() { ' ' } else { '\t' };
    let mut k = 0;
    while k < 4 {
        lx.chars.push_back(t[k]);
        k += 1;
    }
    crate::vshim::collections::set_fuel(12);
    if is_string {
        let tok = lx.string();
        // everything up to the closing quote (or the end of the line), character for character
        let mut want = String::new();
        let mut j = 1;
        while j < 4 && t[j] != '"' {
            want.push(t[j]);
            j += 1;
        }
        let consumed = if j < 4 { j + 1 } else { 4 };
        match tok {
            Some(Token::Literal(Literal::String(s))) => vk_check!(s == want, "C05: a string literal is preserved character for character"),
            _ => vk_check!(false, "C03: the string scanner always returns a literal"),
        }
        vk_check!(lx.chars.len() == 4 - consumed, "C05: the string scanner consumes the literal and its closing quote only");
    } else {
        let tok = lx.whitespace();
        let mut n = 1;
        while n < 4 && (t[n] == ' ' || t[n] == '\t') {
            n += 1;
        }
        match tok {
            Some(Token::Whitespace(w)) => vk_check!(w == n, "C05: a run of blanks is one token recording its length"),
            _ => vk_check!(false, "C03: the blank scanner always returns a token"),
        }
        vk_check!(lx.chars.len() == 4 - n, "C05: the blank scanner consumes exactly the run of blanks");
    }
    vk_cover!(is_string, "reach: string literal");
    vk_cover!(!is_string, "reach: blanks");
    core::mem::forget(lx);
});

//@ prop: C03
//@ tier: thorough
//@ unwind: 24
//@ kind: termination
//@ encodes: BasicLexer::number (loop with push-back)
//@ bounds: every string of 5 characters over the numeric alphabet that starts with a digit or '.'; progress budget 3n+3 pops plus the unwinding assertion
vk_harness!(c03_number_scanner_returns_5, {
    number_returns(5);
});

//@ prop: C02
//@ tier: thorough
//@ unwind: 24
//@ encodes: BasicLexer::number (literal classification)
//@ bounds: every string of 5 characters over the numeric alphabet starting with a digit or '.'
vk_harness!(c02_literal_typing_5, {
    number_typing(5);
});

//@ prop: C16
//@ tier: quick
//@ unwind: 12
//@ caps: VEC=10
//@ encodes: BasicLexer::collapse_triples; BasicLexer::collapse_doubles (several spaced operators in one line: every recorded position must be replaced)
//@ bounds: the token line  1 < _ = 2 > _ = 3  (operator kinds concrete, both blank counts symbolic >= 1)
vk_harness!(c16_two_spaced_operators_in_one_line, {
    let (b1, b2) = (vk::any_usize(), vk::any_usize());
    vk::assume(b1 >= 1 && b2 >= 1);
    let mut tokens: Vec<Token> = Vec::new();
    tokens.push(Token::Literal(Literal::Integer("1".into())));
    tokens.push(Token::Operator(Operator::Less));
    tokens.push(Token::Whitespace(b1));
    tokens.push(Token::Operator(Operator::Equal));
    tokens.push(Token::Literal(Literal::Integer("2".into())));
    tokens.push(Token::Operator(Operator::Greater));
    tokens.push(Token::Whitespace(b2));
    tokens.push(Token::Operator(Operator::Equal));
    tokens.push(Token::Literal(Literal::Integer("3".into())));
    BasicLexer::collapse_triples(&mut tokens);
    BasicLexer::collapse_doubles(&mut tokens);
    vk_check!(tokens.len() == 5, "C16: both spaced operators of the line are merged, nothing else is touched");
    vk_check!(matches!(tokens.get(1), Some(Token::Operator(Operator::LessEqual))), "C16: < = is <= wherever it stands in the line");
    vk_check!(matches!(tokens.get(3), Some(Token::Operator(Operator::GreaterEqual))), "C16: > = is >= wherever it stands in the line");
    vk_check!(matches!(tokens.get(2), Some(Token::Literal(_))) && matches!(tokens.get(4), Some(Token::Literal(_))), "C16: the operands stay where they were");
    vk_cover!(true, "reach: two spaced operators");
    core::mem::forget(tokens);
});
