//! In-module harnesses for `lang::lex` on the vshim build: the hand-written scanners and the operator-merging passes.
use super::*;
use crate::vk;
use crate::vshim::prelude::*;

fn op_of(k: u8) -> Operator {
    match k {
        0 => Operator::Less,
        1 => Operator::Greater,
        _ => Operator::Equal,
    }
}

fn two_character_operators(with_blanks: bool, x: u8, y: u8) {
    // Both characters are fixed per harness (one harness per pair; a symbolic operator makes the passes collect a symbolic number of
    // splice positions, which CBMC did not finish in 15 minutes); the number of blanks between them is symbolic.
    let blanks = vk::any_usize();
    vk::assume(blanks >= 1);
    let mut tokens: Vec<Token> = Vec::new();
    tokens.push(Token::Literal(Literal::Integer("1".into())));
    tokens.push(Token::Operator(op_of(x)));
    if with_blanks {
        tokens.push(Token::Whitespace(blanks));
    }
    tokens.push(Token::Operator(op_of(y)));
    tokens.push(Token::Literal(Literal::Integer("2".into())));
    BasicLexer::collapse_triples(&mut tokens);
    BasicLexer::collapse_doubles(&mut tokens);
    // the documented spellings: <> ; <= and =< ; >= and => ; each also with blanks between the two characters
    let merged = match (x, y) {
        (0, 1) => Some(Operator::NotEqual),
        (0, 2) | (2, 0) => Some(Operator::LessEqual),
        (1, 2) | (2, 1) => Some(Operator::GreaterEqual),
        _ => None,
    };
    match merged {
        Some(op) => {
            vk_check!(tokens.len() == 3, "C16: a two-character relational operator is one token, with or without blanks between its characters");
            match tokens.get(1) {
                Some(Token::Operator(got)) => vk_check!(*got == op, "C16: every spelling of a two-character relational operator means the same operator"),
                _ => vk_check!(false, "C16: the merged operator was lost"),
            }
        }
        None => {
            if !(x == 1 && y == 0) {
                // (> < is additionally accepted as <> by the implementation when written with blanks: not part of the documented set, not asserted)
                vk_check!(tokens.len() == if with_blanks { 5 } else { 4 }, "C16: two relational characters that do not form an operator stay apart");
            }
        }
    }
    vk_cover!(true, "reach: operator pair");
    core::mem::forget(tokens);
}

//@ prop: C16 C05
//@ tier: quick
//@ unwind: 10
//@ caps: VEC=6
//@ encodes: BasicLexer::collapse_triples; BasicLexer::collapse_doubles (relational operators)
//@ bounds: the character pair < < adjacent, between two literals
vk_harness!(c16_op_adjacent_lt_lt, {
    two_character_operators(false, 0, 0);
});

//@ prop: C16 C05
//@ tier: quick
//@ unwind: 10
//@ caps: VEC=6
//@ encodes: BasicLexer::collapse_triples; BasicLexer::collapse_doubles (relational operators)
//@ bounds: the character pair < > adjacent, between two literals
vk_harness!(c16_op_adjacent_lt_gt, {
    two_character_operators(false, 0, 1);
});

//@ prop: C16 C05
//@ tier: quick
//@ unwind: 10
//@ caps: VEC=6
//@ encodes: BasicLexer::collapse_triples; BasicLexer::collapse_doubles (relational operators)
//@ bounds: the character pair < = adjacent, between two literals
vk_harness!(c16_op_adjacent_lt_eq, {
    two_character_operators(false, 0, 2);
});

//@ prop: C16 C05
//@ tier: quick
//@ unwind: 10
//@ caps: VEC=6
//@ encodes: BasicLexer::collapse_triples; BasicLexer::collapse_doubles (relational operators)
//@ bounds: the character pair > < adjacent, between two literals
vk_harness!(c16_op_adjacent_gt_lt, {
    two_character_operators(false, 1, 0);
});

//@ prop: C16 C05
//@ tier: quick
//@ unwind: 10
//@ caps: VEC=6
//@ encodes: BasicLexer::collapse_triples; BasicLexer::collapse_doubles (relational operators)
//@ bounds: the character pair > > adjacent, between two literals
vk_harness!(c16_op_adjacent_gt_gt, {
    two_character_operators(false, 1, 1);
});

//@ prop: C16 C05
//@ tier: quick
//@ unwind: 10
//@ caps: VEC=6
//@ encodes: BasicLexer::collapse_triples; BasicLexer::collapse_doubles (relational operators)
//@ bounds: the character pair > = adjacent, between two literals
vk_harness!(c16_op_adjacent_gt_eq, {
    two_character_operators(false, 1, 2);
});

//@ prop: C16 C05
//@ tier: quick
//@ unwind: 10
//@ caps: VEC=6
//@ encodes: BasicLexer::collapse_triples; BasicLexer::collapse_doubles (relational operators)
//@ bounds: the character pair = < adjacent, between two literals
vk_harness!(c16_op_adjacent_eq_lt, {
    two_character_operators(false, 2, 0);
});

//@ prop: C16 C05
//@ tier: quick
//@ unwind: 10
//@ caps: VEC=6
//@ encodes: BasicLexer::collapse_triples; BasicLexer::collapse_doubles (relational operators)
//@ bounds: the character pair = > adjacent, between two literals
vk_harness!(c16_op_adjacent_eq_gt, {
    two_character_operators(false, 2, 1);
});

//@ prop: C16 C05
//@ tier: quick
//@ unwind: 10
//@ caps: VEC=6
//@ encodes: BasicLexer::collapse_triples; BasicLexer::collapse_doubles (relational operators)
//@ bounds: the character pair = = adjacent, between two literals
vk_harness!(c16_op_adjacent_eq_eq, {
    two_character_operators(false, 2, 2);
});

//@ prop: C16 C05
//@ tier: quick
//@ unwind: 10
//@ caps: VEC=6
//@ encodes: BasicLexer::collapse_triples; BasicLexer::collapse_doubles (relational operators)
//@ bounds: the character pair < < with any number (>= 1) of blanks between them, between two literals
vk_harness!(c16_op_blanks_lt_lt, {
    two_character_operators(true, 0, 0);
});

//@ prop: C16 C05
//@ tier: quick
//@ unwind: 10
//@ caps: VEC=6
//@ encodes: BasicLexer::collapse_triples; BasicLexer::collapse_doubles (relational operators)
//@ bounds: the character pair < > with any number (>= 1) of blanks between them, between two literals
vk_harness!(c16_op_blanks_lt_gt, {
    two_character_operators(true, 0, 1);
});

//@ prop: C16 C05
//@ tier: quick
//@ unwind: 10
//@ caps: VEC=6
//@ encodes: BasicLexer::collapse_triples; BasicLexer::collapse_doubles (relational operators)
//@ bounds: the character pair < = with any number (>= 1) of blanks between them, between two literals
vk_harness!(c16_op_blanks_lt_eq, {
    two_character_operators(true, 0, 2);
});

//@ prop: C16 C05
//@ tier: quick
//@ unwind: 10
//@ caps: VEC=6
//@ encodes: BasicLexer::collapse_triples; BasicLexer::collapse_doubles (relational operators)
//@ bounds: the character pair > < with any number (>= 1) of blanks between them, between two literals
vk_harness!(c16_op_blanks_gt_lt, {
    two_character_operators(true, 1, 0);
});

//@ prop: C16 C05
//@ tier: quick
//@ unwind: 10
//@ caps: VEC=6
//@ encodes: BasicLexer::collapse_triples; BasicLexer::collapse_doubles (relational operators)
//@ bounds: the character pair > > with any number (>= 1) of blanks between them, between two literals
vk_harness!(c16_op_blanks_gt_gt, {
    two_character_operators(true, 1, 1);
});

//@ prop: C16 C05
//@ tier: quick
//@ unwind: 10
//@ caps: VEC=6
//@ encodes: BasicLexer::collapse_triples; BasicLexer::collapse_doubles (relational operators)
//@ bounds: the character pair > = with any number (>= 1) of blanks between them, between two literals
vk_harness!(c16_op_blanks_gt_eq, {
    two_character_operators(true, 1, 2);
});

//@ prop: C16 C05
//@ tier: quick
//@ unwind: 10
//@ caps: VEC=6
//@ encodes: BasicLexer::collapse_triples; BasicLexer::collapse_doubles (relational operators)
//@ bounds: the character pair = < with any number (>= 1) of blanks between them, between two literals
vk_harness!(c16_op_blanks_eq_lt, {
    two_character_operators(true, 2, 0);
});

//@ prop: C16 C05
//@ tier: quick
//@ unwind: 10
//@ caps: VEC=6
//@ encodes: BasicLexer::collapse_triples; BasicLexer::collapse_doubles (relational operators)
//@ bounds: the character pair = > with any number (>= 1) of blanks between them, between two literals
vk_harness!(c16_op_blanks_eq_gt, {
    two_character_operators(true, 2, 1);
});

//@ prop: C16 C05
//@ tier: quick
//@ unwind: 10
//@ caps: VEC=6
//@ encodes: BasicLexer::collapse_triples; BasicLexer::collapse_doubles (relational operators)
//@ bounds: the character pair = = with any number (>= 1) of blanks between them, between two literals
vk_harness!(c16_op_blanks_eq_eq, {
    two_character_operators(true, 2, 2);
});
