//! Mounted as a child of `lang::error`: read access to the private `code` field for the oracles.
use super::*;

pub(crate) fn code_of(e: &Error) -> u16 {
    e.code
}
pub(crate) const OVERFLOW: u16 = ErrorCode::Overflow as u16;
pub(crate) const DIVISION_BY_ZERO: u16 = ErrorCode::DivisionByZero as u16;
pub(crate) const TYPE_MISMATCH: u16 = ErrorCode::TypeMismatch as u16;
pub(crate) const ILLEGAL_FUNCTION_CALL: u16 = ErrorCode::IllegalFunctionCall as u16;
pub(crate) const SUBSCRIPT_OUT_OF_RANGE: u16 = ErrorCode::SubscriptOutOfRange as u16;
pub(crate) const OUT_OF_MEMORY: u16 = ErrorCode::OutOfMemory as u16;
pub(crate) const INTERNAL_ERROR: u16 = ErrorCode::InternalError as u16;
pub(crate) const UNDEFINED_LINE: u16 = ErrorCode::UndefinedLine as u16;

pub(crate) fn raw_column(e: &Error) -> Column {
    e.column.clone()
}

//@ prop: C19
//@ tier: quick
//@ unwind: 12
//@ encodes: Error::column (re-basing by the line-number prefix); Error::in_line_number; Error::in_column
//@ bounds: every line number 0..=65535 or none (direct line); every column range with start, end < 2^16
vk_harness!(c19_error_column_is_rebased_by_the_line_number_prefix, {
    let (a, b) = (crate::vk::any_u16() as usize, crate::vk::any_u16() as usize);
    let n = crate::vk::any_u16();
    let direct = crate::vk::any_bool();
    let e = Error::new(ErrorCode::UndefinedLine).in_line_number(if direct { None } else { Some(n) }).in_column(&(a..b));
    let got = e.column();
    // the listed line is "<number> <text>": the text starts after the digits and one blank
    let digits = if n >= 10000 { 5 } else if n >= 1000 { 4 } else if n >= 100 { 3 } else if n >= 10 { 2 } else { 1 };
    let shift = if direct { 0 } else { digits + 1 };
    vk_check!(got.start == a + shift && got.end == b + shift, "C19: a diagnostic's range must point into the LISTED line (shifted by the line-number prefix)");
    vk_cover!(!direct && n >= 10000, "reach: five-digit line number");
    vk_cover!(direct, "reach: direct line");
    core::mem::forget(e);
});
