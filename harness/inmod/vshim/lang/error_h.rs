//! Mounted as a child of `lang::error`: read access to the private `code` field for the oracles.
use super::*;

pub(crate) fn code_of(e: &Error) -> u16 {
    e.code
}
pub(crate) const OVERFLOW: u16 = ErrorCode::Overflow as u16;
pub(crate) const DIVISION_BY_ZERO: u16 = ErrorCode::DivisionByZero as u16;
pub(crate) const TYPE_MISMATCH: u16 = ErrorCode::TypeMismatch as u16;
pub(crate) const ILLEGAL_FUNCTION_CALL: u16 = ErrorCode::IllegalFunctionCall as u16;
pub(crate) const SUBSCRIPT_OUT_OF_RANGE: u16 = ErrorCode::SubscriptOutOfRange as u16;
pub(crate) const OUT_OF_MEMORY: u16 = ErrorCode::OutOfMemory as u16;
pub(crate) const INTERNAL_ERROR: u16 = ErrorCode::InternalError as u16;
pub(crate) const UNDEFINED_LINE: u16 = ErrorCode::UndefinedLine as u16;
