//! In-module harnesses for `lang::parse` on the vshim build: column tracking (C19), the precedence tables (C02) and the
//! renaming that makes DEF FN parameters local (C10).
use super::*;
use crate::vk;
use crate::vshim::prelude::*;

// ---------------------------------------------------------------------------------------------------------------
// C02: the two precedence tables against the manual's 13 levels

fn operator_of(k: u8) -> Operator {
    match k {
        0 => Operator::Caret,
        1 => Operator::Multiply,
        2 => Operator::Divide,
        3 => Operator::DivideInt,
        4 => Operator::Modulo,
        5 => Operator::Plus,
        6 => Operator::Minus,
        7 => Operator::Equal,
        8 => Operator::NotEqual,
        9 => Operator::Less,
        10 => Operator::LessEqual,
        11 => Operator::Greater,
        12 => Operator::GreaterEqual,
        13 => Operator::Not,
        14 => Operator::And,
        15 => Operator::Or,
        16 => Operator::Xor,
        17 => Operator::Imp,
        _ => Operator::Eqv,
    }
}
/// manual ch.1: 13 ^ ; 12 unary - + ; 11 * / ; 10 \ ; 9 MOD ; 8 + - ; 7 relational ; 6 NOT ; 5 AND ; 4 OR ; 3 XOR ; 2 IMP ; 1 EQV
fn manual_binary(k: u8) -> usize {
    match k {
        0 => 13,
        1 | 2 => 11,
        3 => 10,
        4 => 9,
        5 | 6 => 8,
        7..=12 => 7,
        14 => 5,
        15 => 4,
        16 => 3,
        17 => 2,
        18 => 1,
        _ => 0, // NOT is unary only
    }
}

//@ prop: C02
//@ tier: quick
//@ unwind: 4
//@ encodes: Expression::binary_op_precedence; Expression::unary_op_precedence
//@ bounds: all 19 operators
vk_harness!(c02_precedence_tables, {
    let k = vk::any_below(19);
    let op = operator_of(k);
    match Expression::binary_op_precedence(&op) {
        Ok(p) => vk_check!(p == manual_binary(k), "C02: binary operator precedence must be the manual's 13-level table"),
        Err(_) => vk_check!(false, "C02: precedence lookup failed"),
    }
    let want_unary = if k == 5 || k == 6 { 12 } else if k == 13 { 6 } else { 0 };
    match Expression::unary_op_precedence(&op) {
        Ok(p) => vk_check!(p == want_unary, "C02: unary - and + bind at level 12, NOT at level 6"),
        Err(_) => vk_check!(false, "C02: precedence lookup failed"),
    }
    vk_cover!(k == 18, "reach: EQV");
    vk_cover!(k == 0, "reach: ^");
});

// ---------------------------------------------------------------------------------------------------------------
// C10: parameters of DEF FN are made local by renaming them after the function; the renaming must be injective

fn ident_of(kind: u8, text: &str) -> token::Ident {
    match kind {
        0 => token::Ident::Plain(text.into()),
        1 => token::Ident::String(text.into()),
        2 => token::Ident::Single(text.into()),
        3 => token::Ident::Double(text.into()),
        _ => token::Ident::Integer(text.into()),
    }
}
fn name_of(i: &Ident) -> &str {
    match i {
        Ident::Plain(s) | Ident::String(s) | Ident::Single(s) | Ident::Double(s) | Ident::Integer(s) => s,
    }
}
const FN_NAMES: [&str; 5] = ["FNA", "FNA$", "FNA!", "FNA#", "FNA%"];

//@ prop: C10
//@ tier: quick
//@ unwind: 12
//@ encodes: impl From<(&token::Ident, &token::Ident)> for ast::Ident (parameter renaming)
//@ bounds: two functions from FNA FNA$ FNA! FNA# FNA% (all 25 ordered pairs, symbolic), the same parameter N / N$ / N% (symbolic kind)
vk_harness!(c10_parameter_names_are_local_to_their_function, {
    let (f1, f2) = (vk::any_below(5), vk::any_below(5));
    let pk = vk::any_below(5);
    let ptext = ["N", "N$", "N!", "N#", "N%"][pk as usize];
    let p = ident_of(pk, ptext);
    let a = Ident::from((&ident_of(f1, FN_NAMES[f1 as usize]), &p));
    let b = Ident::from((&ident_of(f2, FN_NAMES[f2 as usize]), &p));
    // the renamed parameter is an ordinary variable: two functions may only share it if they are the same function
    let same = name_of(&a) == name_of(&b);
    vk_check!(same == (f1 == f2), "C10: parameters of different functions must never share a variable (locality)");
    // and it keeps the parameter's own type suffix, so that it is stored with the parameter's type
    let last = name_of(&a).as_bytes()[name_of(&a).len() - 1];
    let want = ptext.as_bytes()[ptext.len() - 1];
    vk_check!(last == want, "C10: the renamed parameter keeps the parameter's type");
    vk_cover!(f1 == 0 && f2 == 1, "reach: FNA vs FNA$");
    vk_cover!(f1 == f2, "reach: same function");
});

// ---------------------------------------------------------------------------------------------------------------
// C19: parser columns count CHARACTERS of the listed text

//@ prop: C19
//@ tier: quick
//@ unwind: 12
//@ encodes: BasicParser::next (column tracking); Token / Literal as Display
//@ bounds: token stream  "<c>" blank(s) :  with <c> any Unicode scalar value (1 to 4 bytes in UTF-8) and 1..=3 blanks; the columns of the string literal and of the colon are checked (whole-statement parsing is outside: it did not finish in 15 minutes)
vk_harness!(c19_columns_count_characters, {
    let cp = vk::any_u32();
    vk::assume(cp <= 0x10FFFF && !(cp >= 0xD800 && cp <= 0xDFFF));
    let c = match char::from_u32(cp) {
        Some(c) => c,
        None => return,
    };
    let mut s = String::new();
    s.push(c);
    let blanks = 1 + vk::any_below(3) as usize;
    let mut tokens: Vec<Token> = Vec::new();
    tokens.push(Token::Literal(Literal::String(s)));
    tokens.push(Token::Whitespace(blanks));
    tokens.push(Token::Colon);
    let mut p = BasicParser { token_stream: tokens.iter(), peeked: None, rem: false, col: 0..0 };
    let t1 = p.next();
    vk_check!(matches!(t1, Some(Token::Literal(_))), "C19: the parser hands out the string literal first");
    vk_check!(p.col.start == 0 && p.col.end == 3, "C19: a quoted one-character string occupies three CHARACTER columns, whatever its byte length");
    let t2 = p.next();
    vk_check!(matches!(t2, Some(Token::Colon)), "C19: blanks are skipped");
    vk_check!(p.col.start == 3 + blanks && p.col.end == 4 + blanks, "C19: the column of a token is the number of characters listed before it");
    vk_cover!(cp >= 0x10000, "reach: four-byte character");
    vk_cover!(cp < 0x80, "reach: ASCII character");
    core::mem::forget(tokens);
});
