//! Child of `mach::var`: state construction / inspection for the oracles, and harnesses on the variable store.
use super::*;
use crate::lang::vh_error as ec;
use crate::vk;

pub(crate) fn is_pristine(v: &Var) -> bool {
    if v.vars.len() != 0 || v.dims.len() != 0 {
        return false;
    }
    let mut i = 0;
    while i < 26 {
        if v.types[i] != VarType::Single {
            return false;
        }
        i += 1;
    }
    true
}
fn type_of(k: u8) -> VarType {
    match k {
        0 => VarType::Integer,
        1 => VarType::Single,
        2 => VarType::Double,
        _ => VarType::String,
    }
}
/// Arbitrary DEFtype table: one symbolic choice per letter.
pub(crate) fn havoc_types(v: &mut Var) {
    let mut i = 0;
    while i < 26 {
        v.types[i] = type_of(vk::any_below(4));
        i += 1;
    }
}
pub(crate) fn set_type(v: &mut Var, letter: usize, k: u8) {
    v.types[letter] = type_of(k);
}
pub(crate) fn add_dim(v: &mut Var, name: &str, bound: i16) {
    v.dims.insert(name.into(), vec![bound]);
}
pub(crate) fn raw_insert(v: &mut Var, name: &str, val: Val) {
    v.vars.insert(name.into(), val);
}
pub(crate) fn var_count(v: &Var) -> usize {
    v.vars.len()
}
pub(crate) fn raw_get(v: &Var, name: &str) -> Option<Val> {
    v.vars.get(name).cloned()
}

//@ prop: C12
//@ tier: quick
//@ unwind: 28
//@ encodes: Var::clear
//@ bounds: arbitrary DEFtype table (4^26), 0..=2 stored variables with symbolic Integer values, 0..=1 dimensioned array
vk_harness!(c12_var_clear, {
    let mut v = Var::new();
    havoc_types(&mut v);
    if vk::any_bool() {
        raw_insert(&mut v, "A%", Val::Integer(vk::any_i16()));
    }
    if vk::any_bool() {
        raw_insert(&mut v, "Z", Val::Integer(vk::any_i16()));
    }
    if vk::any_bool() {
        add_dim(&mut v, "B", 3);
    }
    v.clear();
    vk_check!(v.vars.len() == 0, "C12: CLEAR must remove every variable");
    vk_check!(v.dims.len() == 0, "C12: CLEAR must remove every array dimension");
    let mut i = 0;
    while i < 26 {
        vk_check!(v.types[i] == VarType::Single, "C12: CLEAR must reset every letter's DEFtype to the start-up default (Single)");
        i += 1;
    }
    vk_cover!(true, "reach: var clear");
    core::mem::forget(v);
});

// ---------------------------------------------------------------------------------------------------------------
// C06: typing of reads and stores, array bounds

fn zero_of_kind(v: &Val) -> u8 {
    match v {
        Val::Integer(0) => 0,
        Val::Single(x) if *x == 0.0 => 1,
        Val::Double(x) if *x == 0.0 => 2,
        Val::String(s) if s.is_empty() => 3,
        _ => 9,
    }
}

//@ prop: C06
//@ tier: quick
//@ unwind: 28
//@ encodes: Var::fetch (unassigned variable: suffix, then first-letter DEFtype)
//@ bounds: arbitrary DEFtype table (4^26); names A A% A! A# A$ Z Z1 QX$ (concrete), store empty
vk_harness!(c06_unassigned_reads_zero_of_own_type, {
    let mut v = Var::new();
    havoc_types(&mut v);
    let ta = v.types[0].clone();
    let tz = v.types[25].clone();
    let kind = |t: &VarType| match t {
        VarType::Integer => 0u8,
        VarType::Single => 1,
        VarType::Double => 2,
        VarType::String => 3,
    };
    vk_check!(zero_of_kind(&v.fetch(&"A%".into())) == 0, "C06: an unassigned % variable reads as Integer 0");
    vk_check!(zero_of_kind(&v.fetch(&"A!".into())) == 1, "C06: an unassigned ! variable reads as Single 0");
    vk_check!(zero_of_kind(&v.fetch(&"A#".into())) == 2, "C06: an unassigned # variable reads as Double 0");
    vk_check!(zero_of_kind(&v.fetch(&"QX$".into())) == 3, "C06: an unassigned $ variable reads as the empty string");
    vk_check!(zero_of_kind(&v.fetch(&"A".into())) == kind(&ta), "C06: an unsuffixed variable has the DEFtype of its first letter");
    vk_check!(zero_of_kind(&v.fetch(&"Z1".into())) == kind(&tz), "C06: an unsuffixed variable has the DEFtype of its first letter (Z)");
    vk_cover!(kind(&tz) == 3, "reach: Z is a string letter");
    core::mem::forget(v);
});

//@ prop: C06 C02
//@ tier: quick
//@ unwind: 28
//@ encodes: Var::store; Var::insert_integer / insert_single / insert_double / insert_string; Var::update_val; i16::try_from(Val)
//@ bounds: target variable one of A% A! A# A$ B (B with any DEFtype); stored value any Integer / Single / Double (all bit patterns) or the string "S"; store empty before
vk_harness!(c06_store_converts_to_the_variables_type, {
    let mut v = Var::new();
    let tb = vk::any_below(4);
    set_type(&mut v, 1, tb);
    let which = vk::any_below(5);
    let name: Rc<str> = match which {
        0 => "A%".into(),
        1 => "A!".into(),
        2 => "A#".into(),
        3 => "A$".into(),
        _ => "B".into(),
    };
    let target = if which < 4 { which } else { [0u8, 1, 2, 3][tb as usize] }; // 0 int, 1 single, 2 double, 3 string
    let vk_ = vk::any_below(4);
    let value = match vk_ {
        0 => Val::Integer(vk::any_i16()),
        1 => Val::Single(vk::any_f32()),
        2 => Val::Double(vk::any_f64()),
        _ => Val::String("S".into()),
    };
    let is_zero = match &value {
        Val::Integer(n) => *n == 0,
        Val::Single(x) => *x == 0.0,
        Val::Double(x) => *x == 0.0,
        _ => false,
    };
    let got = v.store(&name, value);
    let stored = v.vars.get(&name).cloned();
    vk_cover!(got.is_err(), "reach: store refused");
    match got {
        Ok(()) => {
            vk_check!((vk_ == 3) == (target == 3), "C06: a number cannot be stored in a string variable nor a string in a numeric one");
            match stored {
                Some(Val::Integer(_)) => vk_check!(target == 0, "C06: a variable never holds a value of another type"),
                Some(Val::Single(_)) => vk_check!(target == 1, "C06: a variable never holds a value of another type"),
                Some(Val::Double(_)) => vk_check!(target == 2, "C06: a variable never holds a value of another type"),
                Some(Val::String(_)) => vk_check!(target == 3, "C06: a variable never holds a value of another type"),
                Some(_) => vk_check!(false, "C06: a control frame was stored in a variable"),
                None => {} // zero / empty values are not stored (they read back as the default)
            }
            if target != 3 && is_zero {
                vk_check!(v.vars.len() == 0, "C18: storing zero frees the slot");
            }
        }
        Err(e) => {
            let c = ec::code_of(&e);
            vk_check!(c == ec::TYPE_MISMATCH || c == ec::OVERFLOW, "C06: assignment fails only with TYPE MISMATCH or OVERFLOW");
            if c == ec::TYPE_MISMATCH {
                vk_check!((vk_ == 3) != (target == 3), "C06: TYPE MISMATCH only between string and numeric");
            }
            if c == ec::OVERFLOW {
                vk_check!(target == 0 && (vk_ == 1 || vk_ == 2), "C06: OVERFLOW only when a floating value does not fit an Integer variable");
            }
            vk_check!(stored.is_none(), "C06: a failed assignment stores nothing");
        }
    }
    vk_cover!(which == 4 && tb == 3 && vk_ == 3, "reach: string into DEFSTR variable");
    core::mem::forget(v);
});

fn array_access(v: &mut Var, r0: i16, r1: i16) -> Result<Val> {
    let mut arr: Stack<Val> = Stack::new("X");
    arr.push(Val::Integer(r0)).unwrap();
    arr.push(Val::Integer(r1)).unwrap();
    v.fetch_array(&"A".into(), arr)
}

//@ prop: C06
//@ tier: quick
//@ unwind: 28
//@ encodes: Var::fetch_array; Var::build_array_key (bounds check per dimension); Var::vec_val_to_vec_i16
//@ bounds: 2-dimensional array A with bounds d0, d1 in 0..=9 (declared); subscripts r0, r1 any i16
vk_harness!(c06_two_dimensional_bounds, {
    let mut v = Var::new();
    let (d0, d1) = (vk::any_below(10) as i16, vk::any_below(10) as i16);
    let mut dims: Vec<i16> = Vec::new();
    dims.push(d0);
    dims.push(d1);
    v.dims.insert("A".into(), dims);
    let (r0, r1) = (vk::any_i16(), vk::any_i16());
    let got = array_access(&mut v, r0, r1);
    let inside = r0 >= 0 && r1 >= 0 && r0 <= d0 && r1 <= d1;
    match got {
        Ok(val) => {
            vk_check!(inside, "C06: an array accepts exactly the subscripts 0..bound in EACH declared dimension");
            vk_check!(zero_of_kind(&val) == 1, "C06: an unassigned element reads as 0 of the array's type");
        }
        Err(e) => {
            vk_check!(!inside, "C06: a subscript inside every bound was rejected");
            vk_check!(ec::code_of(&e) == ec::SUBSCRIPT_OUT_OF_RANGE, "C06: a subscript outside its bound is SUBSCRIPT OUT OF RANGE");
        }
    }
    vk_cover!(r0 < d0 && r0 >= 0 && r1 > d1, "reach: later subscript above its bound, earlier one below");
    vk_cover!(inside, "reach: inside");
    core::mem::forget(v);
});

//@ prop: C06
//@ tier: quick
//@ unwind: 28
//@ encodes: Var::fetch_array / Var::build_array_key on an undeclared array (automatic bound 10); Var::dimension_array afterwards
//@ bounds: undeclared 1-dimensional array; subscript any i16
vk_harness!(c06_undeclared_array_has_bound_10, {
    let mut v = Var::new();
    let r0 = vk::any_i16();
    let mut arr: Stack<Val> = Stack::new("X");
    arr.push(Val::Integer(r0)).unwrap();
    let got = v.fetch_array(&"A".into(), arr);
    vk_check!(got.is_ok() == (r0 >= 0 && r0 <= 10), "C06: an array used undeclared accepts exactly 0..=10");
    if r0 >= 0 {
        // the implicit dimensioning counts: DIM afterwards is a redimension
        let mut d: Stack<Val> = Stack::new("X");
        d.push(Val::Integer(5)).unwrap();
        match v.dimension_array(&"A".into(), d) {
            Err(e) => vk_check!(ec::code_of(&e) == 10, "C06: an array cannot be dimensioned twice (REDIMENSIONED ARRAY)"),
            Ok(()) => vk_check!(false, "C06: an array was dimensioned twice"),
        }
    }
    vk_cover!(r0 == 10, "reach: last valid subscript");
    vk_cover!(r0 == 11, "reach: first invalid subscript");
    core::mem::forget(v);
});

//@ prop: C06
//@ tier: quick
//@ unwind: 12
//@ encodes: Var::erase_array (purge of the erased array's elements by key prefix); Var::fetch
//@ bounds: arrays A and AB with one stored element each (subscript 1) and the scalar A, values any non-zero Integers; ERASE A. Names and subscripts concrete (control skeleton), values symbolic
vk_harness!(c06_erase_removes_only_that_array, {
    let mut v = Var::new();
    let (x, y, z) = (vk::any_i16(), vk::any_i16(), vk::any_i16());
    vk::assume(x != 0 && y != 0 && z != 0);
    v.dims.insert("A".into(), vec![10]);
    v.dims.insert("AB".into(), vec![10]);
    v.vars.insert("A,1,A".into(), Val::Integer(x));
    v.vars.insert("AB,1,AB".into(), Val::Integer(y));
    v.vars.insert("A".into(), Val::Integer(z));
    let got = v.erase_array(&"A".into());
    vk_check!(got.is_ok(), "C06: ERASE of a dimensioned array succeeds");
    vk_check!(v.vars.get("A,1,A").is_none(), "C06: the erased array's elements are gone (read as 0 again)");
    vk_check!(matches!(v.vars.get("AB,1,AB"), Some(Val::Integer(n)) if *n == y), "C06: ERASE A leaves the elements of array AB alone (distinct arrays never share storage)");
    vk_check!(matches!(v.vars.get("A"), Some(Val::Integer(n)) if *n == z), "C06: ERASE A leaves the scalar A alone");
    vk_check!(v.dims.get("A").is_none() && v.dims.get("AB").is_some(), "C06: only the erased array loses its dimensions");
    let again = v.erase_array(&"A".into());
    vk_check!(again.is_err(), "C06: erasing an array that is not dimensioned is an error");
    vk_cover!(true, "reach: erase");
    core::mem::forget(v);
});
