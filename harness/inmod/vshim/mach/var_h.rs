//! Child of `mach::var`: state construction / inspection for the oracles, and harnesses on the variable store.
use super::*;
use crate::lang::vh_error as ec;
use crate::vk;

pub(crate) fn is_pristine(v: &Var) -> bool {
    if v.vars.len() != 0 || v.dims.len() != 0 {
        return false;
    }
    let mut i = 0;
    while i < 26 {
        if v.types[i] != VarType::Single {
            return false;
        }
        i += 1;
    }
    true
}
fn type_of(k: u8) -> VarType {
    match k {
        0 => VarType::Integer,
        1 => VarType::Single,
        2 => VarType::Double,
        _ => VarType::String,
    }
}
/// Arbitrary DEFtype table: one symbolic choice per letter.
pub(crate) fn havoc_types(v: &mut Var) {
    let mut i = 0;
    while i < 26 {
        v.types[i] = type_of(vk::any_below(4));
        i += 1;
    }
}
pub(crate) fn set_type(v: &mut Var, letter: usize, k: u8) {
    v.types[letter] = type_of(k);
}
pub(crate) fn add_dim(v: &mut Var, name: &str, bound: i16) {
    v.dims.insert(name.into(), vec![bound]);
}
pub(crate) fn raw_insert(v: &mut Var, name: &str, val: Val) {
    v.vars.insert(name.into(), val);
}
pub(crate) fn var_count(v: &Var) -> usize {
    v.vars.len()
}
pub(crate) fn raw_get(v: &Var, name: &str) -> Option<Val> {
    v.vars.get(name).cloned()
}

//@ prop: C12
//@ tier: quick
//@ unwind: 28
//@ encodes: Var::clear
//@ bounds: arbitrary DEFtype table (4^26), 0..=2 stored variables with symbolic Integer values, 0..=1 dimensioned array
vk_harness!(c12_var_clear, {
    let mut v = Var::new();
    havoc_types(&mut v);
    if vk::any_bool() {
        raw_insert(&mut v, "A%", Val::Integer(vk::any_i16()));
    }
    if vk::any_bool() {
        raw_insert(&mut v, "Z", Val::Integer(vk::any_i16()));
    }
    if vk::any_bool() {
        add_dim(&mut v, "B", 3);
    }
    v.clear();
    vk_check!(v.vars.len() == 0, "C12: CLEAR must remove every variable");
    vk_check!(v.dims.len() == 0, "C12: CLEAR must remove every array dimension");
    let mut i = 0;
    while i < 26 {
        vk_check!(v.types[i] == VarType::Single, "C12: CLEAR must reset every letter's DEFtype to the start-up default (Single)");
        i += 1;
    }
    vk_cover!(true, "reach: var clear");
    core::mem::forget(v);
});
