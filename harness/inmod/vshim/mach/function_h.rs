//! In-module harnesses for `mach::function` on the vshim build: the column arithmetic of TAB / SPC / POS (C11).
//! `" ".repeat(n)` is modelled by a routine that records the REQUESTED length in a ghost variable (the produced string is
//! capped at the string capacity), so the arithmetic is checked for every column and every argument.
use super::*;
use crate::lang::vh_error as ec;
use crate::vk;
use crate::vshim::string::last_repeat_request;

//@ prop: C11
//@ tier: quick
//@ unwind: 12
//@ encodes: Function::tab; i16::try_from(Val)
//@ stubs: " ".repeat(n) = bounded model recording n
//@ bounds: cursor column any value < 65536; TAB argument any Integer
vk_harness!(c11_tab_arithmetic, {
    let col = vk::any_u16() as usize;
    let t = vk::any_i16();
    let got = Function::tab(col, Val::Integer(t));
    if t < -255 || t > 255 {
        match got {
            Err(e) => vk_check!(ec::code_of(&e) == ec::OVERFLOW, "C11: TAB beyond +-255 is OVERFLOW"),
            Ok(_) => vk_check!(false, "C11: TAB beyond +-255 was accepted"),
        }
    } else {
        vk_check!(matches!(got, Ok(Val::String(_))), "C11: TAB yields blanks");
        let n = last_repeat_request();
        if t < 0 {
            // the comma of PRINT: advance to the start of the next zone of -t columns (always at least one blank)
            let z = (-t) as usize;
            vk_check!(n >= 1 && n <= z && (col + n) % z == 0, "C11: a negative TAB advances to the start of the next zone");
        } else if (t as usize) > col {
            vk_check!(n == t as usize - col, "C11: TAB(x) advances the cursor to column x");
        } else {
            vk_check!(n == 0, "C11: TAB(x) at or left of the cursor prints nothing");
        }
    }
    vk_cover!(t == -14 && col == 13, "reach: last column of a zone");
    vk_cover!(t > 0 && (t as usize) > col, "reach: forward tab");
});

//@ prop: C11 C07
//@ tier: quick
//@ unwind: 12
//@ encodes: Function::spc; Function::pos; usize::try_from(Val)
//@ stubs: " ".repeat(n) = bounded model recording n
//@ bounds: SPC argument any Integer; POS for any column < 2^32
vk_harness!(c11_spc_and_pos, {
    let n = vk::any_i16();
    let got = Function::spc(Val::Integer(n));
    if n < 0 || n > 255 {
        vk_check!(got.is_err(), "C11: SPC outside 0..255 is a BASIC error");
    } else {
        vk_check!(matches!(got, Ok(Val::String(_))) && last_repeat_request() == n as usize, "C11: SPC(n) yields exactly n blanks");
    }
    let col = vk::any_u32() as usize;
    match Function::pos(col) {
        Ok(Val::Integer(p)) => vk_check!(col <= 32767 && p as usize == col, "C11: POS returns the true cursor column"),
        Err(e) => vk_check!(col > 32767 && ec::code_of(&e) == ec::OVERFLOW, "C11: POS fails only when the column does not fit an Integer"),
        _ => vk_check!(false, "C11: POS yields an Integer"),
    }
    vk_cover!(n == 255, "reach: spc 255");
});
