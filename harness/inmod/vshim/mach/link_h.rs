//! Child of `mach::link`: accessors for the oracles, and harnesses on the link object itself.
use super::*;
use crate::vk;

pub(crate) fn data_pos(l: &Link) -> Address {
    l.data_pos
}
pub(crate) fn set_data_pos(l: &mut Link, a: Address) {
    l.data_pos = a;
}
pub(crate) fn ops_len(l: &Link) -> usize {
    l.ops.len()
}
pub(crate) fn data_len(l: &Link) -> usize {
    l.data.len()
}
pub(crate) fn unlinked_symbol_at(l: &Link, addr: Address) -> Option<Symbol> {
    l.unlinked.get(&addr).map(|(_, s)| *s)
}
pub(crate) fn unlinked_len(l: &Link) -> usize {
    l.unlinked.len()
}
pub(crate) fn push_data(l: &mut Link, v: Val) {
    l.data.push(v).unwrap();
}

//@ prop: C12
//@ tier: quick
//@ unwind: 10
//@ encodes: Link::push_run; Link::symbol_for_line_number
//@ bounds: line operand absent or any u16; column range symbolic (< 256)
vk_harness!(c12_run_is_clear_then_jump, {
    let mut l = Link::default();
    let has_line = vk::any_bool();
    let n = vk::any_u16();
    let a = vk::any_u8() as usize;
    let ln = if has_line { Some(n) } else { None };
    let got = l.push_run(a..a + 1, ln);
    vk_check!(got.is_ok(), "C12: emitting RUN failed");
    vk_check!(l.ops.len() == 2, "C12: RUN must compile to exactly two instructions");
    vk_check!(matches!(l.ops.get(0), Some(Opcode::Clear)), "C12: RUN must start with CLEAR");
    vk_check!(matches!(l.ops.get(1), Some(Opcode::Jump(0))), "C12: RUN must end with a jump (GOTO)");
    if has_line {
        vk_check!(unlinked_symbol_at(&l, 1) == Some(n as Symbol), "C12: RUN n must jump to line n");
    } else {
        vk_check!(l.unlinked.len() == 0, "C12: plain RUN jumps to the start of the program (address 0)");
    }
    vk_cover!(has_line, "reach: run n");
    core::mem::forget(l);
});


// ---------------------------------------------------------------------------------------------------------------
// C09: the DATA pointer and the data addresses that symbols carry

fn link_with_data(vals: [i16; 3]) -> Link {
    let mut l = Link::default();
    let mut i = 0;
    while i < 3 {
        l.data.push(Val::Integer(vals[i])).unwrap();
        i += 1;
    }
    l
}

//@ prop: C09
//@ tier: quick
//@ unwind: 10
//@ encodes: Link::read_data; Link::restore_data
//@ bounds: data segment of 3 Integer constants with symbolic values; pointer anywhere in 0..=3; RESTORE target anywhere in 0..=3 (3 = "no constant at or after that line")
vk_harness!(c09_read_and_restore_step, {
    let vals = [vk::any_i16(), vk::any_i16(), vk::any_i16()];
    let mut l = link_with_data(vals);
    let pos = vk::any_below(4) as usize;
    l.data_pos = pos;
    // READ delivers the constant under the pointer and advances, or OUT OF DATA past the last one
    let got = l.read_data();
    if pos < 3 {
        match got {
            Ok(Val::Integer(v)) => vk_check!(v == vals[pos] && l.data_pos == pos + 1, "C09: READ delivers the next DATA constant in source order and advances"),
            _ => vk_check!(false, "C09: READ failed although a constant was left"),
        }
    } else {
        match got {
            Err(e) => vk_check!(crate::lang::vh_error::code_of(&e) == 4 && l.data_pos == pos, "C09: reading past the last constant is OUT OF DATA"),
            Ok(_) => vk_check!(false, "C09: READ past the last constant delivered a value"),
        }
    }
    // RESTORE to any data address of the program, including the address just past the last constant
    let target = vk::any_below(4) as usize;
    l.restore_data(target);
    let again = l.read_data();
    if target < 3 {
        match again {
            Ok(Val::Integer(v)) => vk_check!(v == vals[target], "C09: after RESTORE the next READ delivers the first constant at or after the target"),
            _ => vk_check!(false, "C09: READ after RESTORE failed although constants follow the target"),
        }
    } else {
        vk_check!(again.is_err(), "C09: RESTORE to a line with no constant at or after it must leave nothing to READ (OUT OF DATA)");
    }
    vk_cover!(pos < 3 && target == 3, "reach: restore past the last constant with unread constants left");
    vk_cover!(pos == 3, "reach: out of data");
    core::mem::forget(l);
});

/// A line as Program::codegen lays it out at link level: its line symbol first, then the statement fragments.
fn push_line(prog: &mut Link, number: u16, ndata: usize, restore_to: Option<u16>) {
    prog.push_symbol(number as Symbol);
    let mut frag = Link::default();
    let mut i = 0;
    while i < ndata {
        frag.data.push(Val::Integer(number as i16)).unwrap();
        i += 1;
    }
    if let Some(t) = restore_to {
        frag.push_restore(1..2, Some(t)).unwrap();
    }
    prog.append(frag).unwrap();
}

//@ prop: C09 C20
//@ tier: quick
//@ unwind: 10
//@ encodes: Link::append (data offsets of symbols); Link::push_symbol; Link::push_restore; Link::link (Restore resolution)
//@ bounds: 3 program lines 10,20,30 with 0..=1 DATA constants each (symbolic counts); one RESTORE n on line 20 with n any of the three lines
vk_harness!(c09_restore_n_resolves_to_first_constant_at_or_after, {
    let (d1, d2, d3) = (vk::any_below(2) as usize, vk::any_below(2) as usize, vk::any_below(2) as usize);
    let which = vk::any_below(3);
    let target: u16 = if which == 0 { 10 } else if which == 1 { 20 } else { 30 };
    let mut prog = Link::default();
    push_line(&mut prog, 10, d1, None);
    push_line(&mut prog, 20, d2, Some(target));
    push_line(&mut prog, 30, d3, None);
    let errors = prog.link();
    vk_check!(errors.is_empty(), "C09: a RESTORE to an existing line links cleanly");
    let want = if which == 0 { 0 } else if which == 1 { d1 } else { d1 + d2 };
    match prog.ops.get(0) {
        Some(Opcode::Restore(a)) => vk_check!(*a == want, "C09: RESTORE n must point at the first constant found at or after line n"),
        _ => vk_check!(false, "C09: the RESTORE instruction was lost"),
    }
    vk_check!(prog.data.len() == d1 + d2 + d3, "C09: every DATA constant is in the data segment, in source order");
    vk_cover!(which == 2 && d3 == 0, "reach: restore to a line after the last constant");
    core::mem::forget(prog);
    core::mem::forget(errors);
});

// ---------------------------------------------------------------------------------------------------------------
// C01 / C20: symbol relocation when statement fragments are appended, and resolution of branches by line number

/// `k` local labels already allocated in the parent (one per earlier IF / FOR / GOSUB / ON / WHILE / DEF of the same compile),
/// one instruction already emitted; the control skeleton is concrete, the referenced line number is symbolic.
fn append_relocation(k: usize) {
    let mut parent = Link::default();
    let mut i = 0;
    while i < k {
        let s = parent.next_symbol();
        parent.push_symbol(s);
        i += 1;
    }
    parent.push(Opcode::End).unwrap();
    let line = vk::any_u16();
    vk::assume(line <= 65529);
    // the fragment of one statement: a branch to a line number, and a branch to a label local to the fragment
    let mut frag = Link::default();
    frag.push_goto(1..2, Some(line)).unwrap();
    let local = frag.next_symbol();
    frag.push_ifnot(3..4, local).unwrap();
    frag.push_symbol(local); // label at fragment address 2
    parent.append(frag).unwrap();
    // the target line is compiled later, after one more instruction
    parent.push(Opcode::End).unwrap();
    parent.push_symbol(line as Symbol);
    let line_addr = parent.ops.len();
    let errors = parent.link();
    vk_check!(errors.is_empty(), "C20: all references resolve");
    match parent.ops.get(1) {
        Some(Opcode::Jump(a)) => vk_check!(*a == line_addr, "C20: a branch to line n resolves to line n's code wherever the fragment is placed (line 0 included)"),
        _ => vk_check!(false, "C20: the GOTO instruction was lost"),
    }
    match parent.ops.get(2) {
        Some(Opcode::IfNot(a)) => vk_check!(*a == 3, "C01: a statement-local label moves with its fragment"),
        _ => vk_check!(false, "C01: the IFNOT instruction was lost"),
    }
    vk_cover!(line == 0, "reach: branch to line 0");
    vk_cover!(line == 65529, "reach: branch to the last line number");
    core::mem::forget(parent);
    core::mem::forget(errors);
}

//@ prop: C01 C20
//@ tier: quick
//@ unwind: 10
//@ encodes: Link::append (relocation of local symbols and of unresolved references); Link::next_symbol; Link::push_goto; Link::push_ifnot; Link::push_symbol; Link::link
//@ bounds: parent without local labels; appended fragment = [GOTO <line L>, IFNOT <own label>, label:], L any line number 0..=65529; line L defined after the fragment
vk_harness!(c20_append_relocation_first_statement, {
    append_relocation(0);
});

//@ prop: C01 C20
//@ tier: quick
//@ unwind: 10
//@ encodes: Link::append (relocation of local symbols and of unresolved references); Link::next_symbol; Link::push_goto; Link::push_ifnot; Link::push_symbol; Link::link
//@ bounds: parent with ONE local label already allocated; appended fragment = [GOTO <line L>, IFNOT <own label>, label:], L any line number 0..=65529
vk_harness!(c20_append_relocation_after_one_label, {
    append_relocation(1);
});

