//! Child of `mach::link`: accessors for the oracles, and harnesses on the link object itself.
use super::*;
use crate::vk;

pub(crate) fn data_pos(l: &Link) -> Address {
    l.data_pos
}
pub(crate) fn set_data_pos(l: &mut Link, a: Address) {
    l.data_pos = a;
}
pub(crate) fn ops_len(l: &Link) -> usize {
    l.ops.len()
}
pub(crate) fn data_len(l: &Link) -> usize {
    l.data.len()
}
pub(crate) fn unlinked_symbol_at(l: &Link, addr: Address) -> Option<Symbol> {
    l.unlinked.get(&addr).map(|(_, s)| *s)
}
pub(crate) fn unlinked_len(l: &Link) -> usize {
    l.unlinked.len()
}
pub(crate) fn push_data(l: &mut Link, v: Val) {
    l.data.push(v).unwrap();
}

//@ prop: C12
//@ tier: quick
//@ unwind: 10
//@ encodes: Link::push_run; Link::symbol_for_line_number
//@ bounds: line operand absent or any u16; column range symbolic (< 256)
vk_harness!(c12_run_is_clear_then_jump, {
    let mut l = Link::default();
    let has_line = vk::any_bool();
    let n = vk::any_u16();
    let a = vk::any_u8() as usize;
    let ln = if has_line { Some(n) } else { None };
    let got = l.push_run(a..a + 1, ln);
    vk_check!(got.is_ok(), "C12: emitting RUN failed");
    vk_check!(l.ops.len() == 2, "C12: RUN must compile to exactly two instructions");
    vk_check!(matches!(l.ops.get(0), Some(Opcode::Clear)), "C12: RUN must start with CLEAR");
    vk_check!(matches!(l.ops.get(1), Some(Opcode::Jump(0))), "C12: RUN must end with a jump (GOTO)");
    if has_line {
        vk_check!(unlinked_symbol_at(&l, 1) == Some(n as Symbol), "C12: RUN n must jump to line n");
    } else {
        vk_check!(l.unlinked.len() == 0, "C12: plain RUN jumps to the start of the program (address 0)");
    }
    vk_cover!(has_line, "reach: run n");
    core::mem::forget(l);
});

