//! In-module harnesses for `mach::runtime` on the vshim build: one VM step from an arbitrary bounded state.
use super::*;
use crate::lang::vh_error as ec;
use crate::vk;

/// A symbolic numeric stack value.
fn any_num() -> Val {
    match vk::any_below(3) {
        0 => Val::Integer(vk::any_i16()),
        1 => Val::Single(vk::any_f32()),
        _ => Val::Double(vk::any_f64()),
    }
}
/// The documented conversion to a 16-bit Integer (floor, range check).
fn to_int(v: &Val) -> Option<i16> {
    match v {
        Val::Integer(n) => Some(*n),
        Val::Single(x) => {
            if *x >= -32768.0 && *x < 32768.0 {
                Some(x.floor() as i16)
            } else {
                None
            }
        }
        Val::Double(x) => {
            if *x >= -32768.0 && *x < 32768.0 {
                Some(x.floor() as i16)
            } else {
                None
            }
        }
        _ => None,
    }
}

//@ prop: C18 C01
//@ tier: quick
//@ unwind: 10
//@ encodes: Runtime::r#on; Stack::pop; <i16 as TryFrom<Val>>::try_from
//@ bounds: selector and count any numeric Val (all bit patterns), pc < 2^32, up to 2 further values below them on the stack
vk_harness!(c18_on_step, {
    let mut r = Runtime::default();
    let below = vk::any_below(3) as usize;
    let mut i = 0;
    while i < below {
        r.stack.push(Val::Integer(7)).unwrap();
        i += 1;
    }
    let (len, select) = (any_num(), any_num());
    let pc0 = vk::any_u32() as usize;
    r.pc = pc0;
    r.stack.push(len.clone()).unwrap();
    r.stack.push(select.clone()).unwrap();
    let got = r.r#on();
    vk_cover!(got.is_ok(), "reach: on ok");
    vk_cover!(got.is_err(), "reach: on err");
    // a completed ON consumes exactly its two operands (a failed one ends the statement; what execute() does with the
    // stack after an error is checked separately)
    vk_check!(got.is_err() || r.stack.len() == below, "C18: ON must consume exactly its selector and its count");
    match (to_int(&select), to_int(&len)) {
        (Some(s), Some(l)) => {
            if s < 0 || l < 0 {
                match got {
                    Err(e) => vk_check!(ec::code_of(&e) == ec::ILLEGAL_FUNCTION_CALL, "C01: negative ON selector is ILLEGAL FUNCTION CALL"),
                    Ok(()) => vk_check!(false, "C01: negative ON selector accepted"),
                }
            } else {
                vk_check!(got.is_ok(), "C01: ON with a valid selector failed");
                let want = if s == 0 || s > l { pc0 + l as usize } else { pc0 + s as usize - 1 };
                vk_check!(r.pc == want, "C01: ON must skip to the selected entry, or past the list when out of range");
            }
        }
        _ => {
            vk_check!(got.is_err(), "C01: ON selector outside the Integer range accepted");
            vk_check!(r.pc == pc0, "C01: failed ON must not move the program counter");
        }
    }
});


// ---------------------------------------------------------------------------------------------------------------
// helpers: arbitrary VM states

/// The ten VM states by code; `Listing` carries a symbolic range.
fn state_of(k: u8) -> State {
    match k {
        0 => State::Intro,
        1 => State::Stopped,
        2 => State::Listing(Some(vk::any_u16())..=Some(vk::any_u16())),
        3 => State::RuntimeError(error!(Break)),
        4 => State::Running,
        5 => State::Input,
        6 => State::InputRedo,
        7 => State::InputRunning,
        8 => State::Interrupt,
        _ => State::Inkey,
    }
}
fn code_of_state(s: &State) -> u8 {
    match s {
        State::Intro => 0,
        State::Stopped => 1,
        State::Listing(_) => 2,
        State::RuntimeError(_) => 3,
        State::Running => 4,
        State::Input => 5,
        State::InputRedo => 6,
        State::InputRunning => 7,
        State::Interrupt => 8,
        State::Inkey => 9,
    }
}
/// 0..=3 symbolic stack entries (Integers, plus possibly a RETURN frame and a FOR frame marker).
fn havoc_stack(r: &mut Runtime) -> usize {
    let n = vk::any_below(4) as usize;
    let mut i = 0;
    while i < n {
        let v = match vk::any_below(3) {
            0 => Val::Integer(vk::any_i16()),
            1 => Val::Return(vk::any_u16() as usize),
            _ => Val::Next(vk::any_u16() as usize),
        };
        r.stack.push(v).unwrap();
        i += 1;
    }
    n
}

// ---------------------------------------------------------------------------------------------------------------
// C13: interrupt / END / STOP / CONT bookkeeping, one step each, from an arbitrary state

//@ prop: C13 C03
//@ tier: quick
//@ unwind: 10
//@ encodes: Runtime::interrupt
//@ bounds: any of the 10 VM states (Listing with a symbolic range), pc/entry_address < 2^16, 0..=3 stack entries
vk_harness!(c13_interrupt_saves_state, {
    let mut r = Runtime::default();
    let k = vk::any_below(10);
    r.state = state_of(k);
    let (a, b) = match &r.state {
        State::Listing(rg) => (*rg.start(), *rg.end()),
        _ => (None, None),
    };
    let pc0 = vk::any_u16() as usize;
    let entry = vk::any_u16() as usize;
    r.pc = pc0;
    r.entry_address = entry;
    let n = havoc_stack(&mut r);
    r.interrupt();
    vk_check!(code_of_state(&r.state) == 8, "C13: after interrupt() the VM must be in the interrupt state");
    if pc0 < entry {
        // interrupted inside the stored program: everything needed to resume is kept
        vk_check!(code_of_state(&r.cont) == k, "C13: interrupt must save the state the program was in, so that CONT resumes it");
        if let State::Listing(rg) = &r.cont {
            vk_check!(*rg.start() == a && *rg.end() == b, "C13: interrupt must keep the position of a running LIST");
        }
        vk_check!(r.cont_pc == pc0, "C13: interrupt must save the program counter");
        vk_check!(r.stack.len() == n, "C13: interrupt inside the program must keep the value stack");
    } else {
        vk_check!(code_of_state(&r.cont) == 1, "C13: an interrupted direct statement cannot be continued");
        vk_check!(r.stack.len() == 0, "C13: interrupting a direct statement discards its stack");
    }
    vk_cover!(pc0 < entry && k == 7, "reach: interrupt during INPUT assignment");
    vk_cover!(pc0 >= entry, "reach: interrupt in direct mode");
    core::mem::forget(r);
});

//@ prop: C13
//@ tier: quick
//@ unwind: 10
//@ encodes: Runtime::r#cont
//@ bounds: saved state any of the 10 VM states, current state any, pc/cont_pc < 2^16, 0..=3 stack entries
vk_harness!(c13_cont_restores_state, {
    let mut r = Runtime::default();
    let kc = vk::any_below(10);
    let ks = vk::any_below(10);
    r.cont = state_of(kc);
    r.state = state_of(ks);
    let (pc0, cpc) = (vk::any_u16() as usize, vk::any_u16() as usize);
    r.pc = pc0;
    r.cont_pc = cpc;
    let n = havoc_stack(&mut r);
    let got = r.r#cont();
    if kc == 1 || ks != 4 {
        // nothing to continue, or CONT not executed as a running statement
        match got {
            Err(e) => vk_check!(ec::code_of(&e) == 17, "C13: CONT with nothing to continue is CAN'T CONTINUE"),
            Ok(_) => vk_check!(false, "C13: CONT succeeded with nothing to continue"),
        }
        vk_check!(r.pc == pc0 && code_of_state(&r.state) == ks && code_of_state(&r.cont) == kc, "C13: a refused CONT changes nothing");
    } else {
        vk_check!(code_of_state(&r.state) == kc, "C13: CONT must restore the saved state");
        vk_check!(r.pc == cpc, "C13: CONT must restore the saved program counter");
        vk_check!(code_of_state(&r.cont) == 1, "C13: the continuation is consumed by CONT");
        match got {
            Ok(None) => vk_check!(kc == 4, "C13: CONT keeps executing in place only when resuming plain execution"),
            Ok(Some(Event::Running)) => vk_check!(kc != 4, "C13: resuming a non-running state hands control back to the state machine"),
            _ => vk_check!(false, "C13: CONT failed although a continuation was saved"),
        }
    }
    vk_check!(r.stack.len() == n, "C13: CONT must not touch the value stack");
    vk_cover!(kc == 7 && ks == 4, "reach: cont into input assignment");
    core::mem::forget(r);
});

//@ prop: C13
//@ tier: quick
//@ unwind: 10
//@ encodes: Runtime::r#end
//@ bounds: current and saved state any of the 10 VM states, pc/entry_address/cont_pc < 2^16
vk_harness!(c13_end_saves_continuation, {
    let mut r = Runtime::default();
    let ks = vk::any_below(10);
    let kc = vk::any_below(10);
    r.state = state_of(ks);
    r.cont = state_of(kc);
    let (pc0, entry, cpc) = (vk::any_u16() as usize, vk::any_u16() as usize, vk::any_u16() as usize);
    r.pc = pc0;
    r.entry_address = entry;
    r.cont_pc = cpc;
    let ev = r.r#end();
    vk_check!(matches!(ev, Event::Stopped), "C13: END reports Stopped");
    vk_check!(code_of_state(&r.state) == 1, "C13: END stops the VM");
    if pc0 < entry {
        vk_check!(code_of_state(&r.cont) == ks && r.cont_pc == pc0, "C13: END/STOP inside the program must save state and position for CONT");
    } else if pc0 == entry {
        vk_check!(code_of_state(&r.cont) == 1, "C13: running off the end of the program leaves nothing to continue");
    } else {
        vk_check!(code_of_state(&r.cont) == kc && r.cont_pc == cpc, "C13: a direct statement finishing must not disturb a saved continuation");
    }
    vk_cover!(pc0 > entry && kc == 4, "reach: direct statement with pending continuation");
    core::mem::forget(r);
});
