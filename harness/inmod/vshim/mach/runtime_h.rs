//! In-module harnesses for `mach::runtime` on the vshim build: one VM step from an arbitrary bounded state.
use super::*;
use crate::lang::vh_error as ec;
use crate::vk;

/// A symbolic numeric stack value.
fn any_num() -> Val {
    match vk::any_below(3) {
        0 => Val::Integer(vk::any_i16()),
        1 => Val::Single(vk::any_f32()),
        _ => Val::Double(vk::any_f64()),
    }
}
/// The documented conversion to a 16-bit Integer (floor, range check).
fn to_int(v: &Val) -> Option<i16> {
    match v {
        Val::Integer(n) => Some(*n),
        Val::Single(x) => {
            if *x >= -32768.0 && *x < 32768.0 {
                Some(x.floor() as i16)
            } else {
                None
            }
        }
        Val::Double(x) => {
            if *x >= -32768.0 && *x < 32768.0 {
                Some(x.floor() as i16)
            } else {
                None
            }
        }
        _ => None,
    }
}

//@ prop: C18 C01
//@ tier: quick
//@ unwind: 10
//@ encodes: Runtime::r#on; Stack::pop; <i16 as TryFrom<Val>>::try_from
//@ bounds: selector and count any numeric Val (all bit patterns), pc < 2^32, up to 2 further values below them on the stack
vk_harness!(c18_on_step, {
    let mut r = Runtime::default();
    let below = vk::any_below(3) as usize;
    let mut i = 0;
    while i < below {
        r.stack.push(Val::Integer(7)).unwrap();
        i += 1;
    }
    let (len, select) = (any_num(), any_num());
    let pc0 = vk::any_u32() as usize;
    r.pc = pc0;
    r.stack.push(len.clone()).unwrap();
    r.stack.push(select.clone()).unwrap();
    let got = r.r#on();
    vk_cover!(got.is_ok(), "reach: on ok");
    vk_cover!(got.is_err(), "reach: on err");
    // a completed ON consumes exactly its two operands (a failed one ends the statement; what execute() does with the
    // stack after an error is checked separately)
    vk_check!(got.is_err() || r.stack.len() == below, "C18: ON must consume exactly its selector and its count");
    match (to_int(&select), to_int(&len)) {
        (Some(s), Some(l)) => {
            if s < 0 || l < 0 {
                match got {
                    Err(e) => vk_check!(ec::code_of(&e) == ec::ILLEGAL_FUNCTION_CALL, "C01: negative ON selector is ILLEGAL FUNCTION CALL"),
                    Ok(()) => vk_check!(false, "C01: negative ON selector accepted"),
                }
            } else {
                vk_check!(got.is_ok(), "C01: ON with a valid selector failed");
                let want = if s == 0 || s > l { pc0 + l as usize } else { pc0 + s as usize - 1 };
                vk_check!(r.pc == want, "C01: ON must skip to the selected entry, or past the list when out of range");
            }
        }
        _ => {
            vk_check!(got.is_err(), "C01: ON selector outside the Integer range accepted");
            vk_check!(r.pc == pc0, "C01: failed ON must not move the program counter");
        }
    }
});


// ---------------------------------------------------------------------------------------------------------------
// helpers: arbitrary VM states

/// The ten VM states by code; `Listing` carries a symbolic range.
fn state_of(k: u8) -> State {
    match k {
        0 => State::Intro,
        1 => State::Stopped,
        2 => State::Listing(Some(vk::any_u16())..=Some(vk::any_u16())),
        3 => State::RuntimeError(error!(Break)),
        4 => State::Running,
        5 => State::Input,
        6 => State::InputRedo,
        7 => State::InputRunning,
        8 => State::Interrupt,
        _ => State::Inkey,
    }
}
fn code_of_state(s: &State) -> u8 {
    match s {
        State::Intro => 0,
        State::Stopped => 1,
        State::Listing(_) => 2,
        State::RuntimeError(_) => 3,
        State::Running => 4,
        State::Input => 5,
        State::InputRedo => 6,
        State::InputRunning => 7,
        State::Interrupt => 8,
        State::Inkey => 9,
    }
}
/// 0..=3 symbolic stack entries (Integers, plus possibly a RETURN frame and a FOR frame marker).
fn havoc_stack(r: &mut Runtime) -> usize {
    havoc_stack_upto(r, 3)
}
fn havoc_stack_upto(r: &mut Runtime, max: u8) -> usize {
    let n = vk::any_below(max + 1) as usize;
    let mut i = 0;
    while i < n {
        let v = match vk::any_below(3) {
            0 => Val::Integer(vk::any_i16()),
            1 => Val::Return(vk::any_u16() as usize),
            _ => Val::Next(vk::any_u16() as usize),
        };
        r.stack.push(v).unwrap();
        i += 1;
    }
    n
}

// ---------------------------------------------------------------------------------------------------------------
// C13: interrupt / END / STOP / CONT bookkeeping, one step each, from an arbitrary state

//@ prop: C13 C03
//@ tier: quick
//@ unwind: 10
//@ encodes: Runtime::interrupt
//@ bounds: any of the 10 VM states (Listing with a symbolic range), pc/entry_address < 2^16, 0..=3 stack entries
vk_harness!(c13_interrupt_saves_state, {
    let mut r = Runtime::default();
    let k = vk::any_below(10);
    r.state = state_of(k);
    let (a, b) = match &r.state {
        State::Listing(rg) => (*rg.start(), *rg.end()),
        _ => (None, None),
    };
    let pc0 = vk::any_u16() as usize;
    let entry = vk::any_u16() as usize;
    r.pc = pc0;
    r.entry_address = entry;
    let n = havoc_stack(&mut r);
    r.interrupt();
    vk_check!(code_of_state(&r.state) == 8, "C13: after interrupt() the VM must be in the interrupt state");
    if pc0 < entry {
        // interrupted inside the stored program: everything needed to resume is kept
        vk_check!(code_of_state(&r.cont) == k, "C13: interrupt must save the state the program was in, so that CONT resumes it");
        if let State::Listing(rg) = &r.cont {
            vk_check!(*rg.start() == a && *rg.end() == b, "C13: interrupt must keep the position of a running LIST");
        }
        vk_check!(r.cont_pc == pc0, "C13: interrupt must save the program counter");
        vk_check!(r.stack.len() == n, "C13: interrupt inside the program must keep the value stack");
    } else {
        vk_check!(code_of_state(&r.cont) == 1, "C13: an interrupted direct statement cannot be continued");
        vk_check!(r.stack.len() == 0, "C13: interrupting a direct statement discards its stack");
    }
    vk_cover!(pc0 < entry && k == 7, "reach: interrupt during INPUT assignment");
    vk_cover!(pc0 >= entry, "reach: interrupt in direct mode");
    core::mem::forget(r);
});

//@ prop: C13
//@ tier: quick
//@ unwind: 10
//@ encodes: Runtime::r#cont
//@ bounds: saved state any of the 10 VM states, current state any, pc/cont_pc < 2^16, 0..=3 stack entries
vk_harness!(c13_cont_restores_state, {
    let mut r = Runtime::default();
    let kc = vk::any_below(10);
    let ks = vk::any_below(10);
    r.cont = state_of(kc);
    r.state = state_of(ks);
    let (pc0, cpc) = (vk::any_u16() as usize, vk::any_u16() as usize);
    r.pc = pc0;
    r.cont_pc = cpc;
    let n = havoc_stack(&mut r);
    let got = r.r#cont();
    if kc == 1 || ks != 4 {
        // nothing to continue, or CONT not executed as a running statement
        match got {
            Err(e) => vk_check!(ec::code_of(&e) == 17, "C13: CONT with nothing to continue is CAN'T CONTINUE"),
            Ok(_) => vk_check!(false, "C13: CONT succeeded with nothing to continue"),
        }
        vk_check!(r.pc == pc0 && code_of_state(&r.state) == ks && code_of_state(&r.cont) == kc, "C13: a refused CONT changes nothing");
    } else {
        vk_check!(code_of_state(&r.state) == kc, "C13: CONT must restore the saved state");
        vk_check!(r.pc == cpc, "C13: CONT must restore the saved program counter");
        vk_check!(code_of_state(&r.cont) == 1, "C13: the continuation is consumed by CONT");
        match got {
            Ok(None) => vk_check!(kc == 4, "C13: CONT keeps executing in place only when resuming plain execution"),
            Ok(Some(Event::Running)) => vk_check!(kc != 4, "C13: resuming a non-running state hands control back to the state machine"),
            _ => vk_check!(false, "C13: CONT failed although a continuation was saved"),
        }
    }
    vk_check!(r.stack.len() == n, "C13: CONT must not touch the value stack");
    vk_cover!(kc == 7 && ks == 4, "reach: cont into input assignment");
    core::mem::forget(r);
});

//@ prop: C13
//@ tier: quick
//@ unwind: 10
//@ encodes: Runtime::r#end
//@ bounds: current and saved state any of the 10 VM states, pc/entry_address/cont_pc < 2^16
vk_harness!(c13_end_saves_continuation, {
    let mut r = Runtime::default();
    let ks = vk::any_below(10);
    let kc = vk::any_below(10);
    r.state = state_of(ks);
    r.cont = state_of(kc);
    let (pc0, entry, cpc) = (vk::any_u16() as usize, vk::any_u16() as usize, vk::any_u16() as usize);
    r.pc = pc0;
    r.entry_address = entry;
    r.cont_pc = cpc;
    let ev = r.r#end();
    vk_check!(matches!(ev, Event::Stopped), "C13: END reports Stopped");
    vk_check!(code_of_state(&r.state) == 1, "C13: END stops the VM");
    if pc0 < entry {
        vk_check!(code_of_state(&r.cont) == ks && r.cont_pc == pc0, "C13: END/STOP inside the program must save state and position for CONT");
    } else if pc0 == entry {
        vk_check!(code_of_state(&r.cont) == 1, "C13: running off the end of the program leaves nothing to continue");
    } else {
        vk_check!(code_of_state(&r.cont) == kc && r.cont_pc == cpc, "C13: a direct statement finishing must not disturb a saved continuation");
    }
    vk_cover!(pc0 > entry && kc == 4, "reach: direct statement with pending continuation");
    core::mem::forget(r);
});

// ---------------------------------------------------------------------------------------------------------------
// helpers: programs built directly from opcodes (no lexing / parsing / code generation involved)

fn load_ops(r: &mut Runtime, ops: Vec<Opcode>) {
    let mut l = Link::default();
    for op in ops {
        l.push(op).unwrap();
    }
    r.program.append(l).unwrap();
}
fn first_error_code(ev: &Event) -> Option<u16> {
    match ev {
        Event::Errors(v) => v.iter().next().map(|e| ec::code_of(e)),
        _ => None,
    }
}

// The control skeleton of every execute()-level harness is CONCRETE (which state, which opcode, which position) and only
// data is symbolic: a symbolic discriminant feeding `match op` / `match &self.state` makes CBMC walk every arm of the
// dispatcher (measured: > 600 s). Finite discrete choices are covered by one generated harness per choice.

fn break_is_reported_once(kc: u8, col: usize) {
    let mut r = Runtime::default();
    r.state = State::Interrupt;
    r.cont = state_of(kc);
    r.pc = vk::any_u16() as usize;
    r.entry_address = vk::any_u16() as usize;
    let pc0 = r.pc;
    // `col` is concrete: a symbolic column would merge the two outcomes of the first slice into one symbolic VM state, and the
    // second execute() would then walk every arm of the state machine
    r.print_col = col;
    let budget = vk::any_u16() as usize;
    let ev = r.execute(budget);
    if col > 0 {
        // the forced line break comes first, the error on the next slice
        vk_check!(matches!(&ev, Event::Print(s) if s.as_str() == "\n"), "C13: BREAK must first end the current output line");
        vk_check!(r.print_col == 0, "C13: the forced line break resets the column");
        let ev2 = r.execute(budget);
        vk_check!(first_error_code(&ev2) == Some(0), "C13: interrupt must be reported as BREAK");
        core::mem::forget(ev2);
    } else {
        vk_check!(first_error_code(&ev) == Some(0), "C13: interrupt must be reported as BREAK");
    }
    vk_check!(code_of_state(&r.state) == 1, "C03: after at most one interrupt the interpreter is stopped at the prompt");
    vk_check!(code_of_state(&r.cont) == kc && r.pc == pc0, "C13: reporting BREAK must not disturb the continuation");
    vk_cover!(true, "reach: break reported");
    core::mem::forget(r);
    core::mem::forget(ev);
}

//@ prop: C13 C03
//@ tier: quick
//@ unwind: 12
//@ verbose: off
//@ encodes: Runtime::execute (State::Interrupt arm, RuntimeError reporting); Link::line_number_for
//@ bounds: saved continuation = Running; pc, entry_address < 2^16; print column 5 (mid-line); instruction budget any u16; empty program (no line table)
vk_harness!(c13_break_reported_cont_running, {
    break_is_reported_once(4, 5);
});

//@ prop: C13 C03
//@ tier: quick
//@ unwind: 12
//@ verbose: off
//@ encodes: Runtime::execute (State::Interrupt arm, RuntimeError reporting); Link::line_number_for
//@ bounds: saved continuation = InputRunning; pc, entry_address < 2^16; print column 0; instruction budget any u16; empty program
vk_harness!(c13_break_reported_cont_input, {
    break_is_reported_once(7, 0);
});

//@ prop: C13 C03
//@ tier: thorough
//@ unwind: 12
//@ verbose: off
//@ encodes: Runtime::execute (State::Interrupt arm, RuntimeError reporting); Link::line_number_for
//@ bounds: saved continuation = Stopped (interrupt at the prompt); pc, entry_address < 2^16; print column 0; budget any u16
vk_harness!(c13_break_reported_cont_stopped, {
    break_is_reported_once(1, 0);
});

fn stop_or_end_statement(is_stop: bool, entry: usize) {
    let mut r = Runtime::default();
    load_ops(&mut r, vec![if is_stop { Opcode::Stop } else { Opcode::End }, Opcode::End]);
    r.state = State::Running;
    r.pc = 0;
    r.entry_address = entry; // 0: direct code, 1: last program instruction, 2: inside the program
    // a GOSUB frame and a value under it
    r.stack.push(Val::Integer(vk::any_i16())).unwrap();
    r.stack.push(Val::Return(vk::any_u16() as usize)).unwrap();
    let n = 2;
    let ev = r.execute(5);
    if is_stop {
        // STOP = BREAK error raised by the statement; reported on the next slice
        vk_check!(matches!(ev, Event::Running), "C13: STOP ends the slice");
        vk_check!(code_of_state(&r.state) == 3, "C13: STOP is reported as an error (BREAK)");
        if 1 < entry {
            vk_check!(code_of_state(&r.cont) == 4 && r.cont_pc == 1, "C13: STOP inside the program must be continuable after the STOP");
            vk_check!(r.stack.len() == n, "C13: STOP inside the program keeps the stack (loops, subroutines) for CONT");
        } else {
            vk_check!(code_of_state(&r.cont) == 1 && r.stack.len() == 0, "C13: STOP outside the program leaves nothing to continue");
        }
    } else {
        vk_check!(code_of_state(&r.state) == 1, "C13: END stops the VM");
        if 1 < entry {
            vk_check!(code_of_state(&r.cont) == 4 && r.cont_pc == 1, "C13: END inside the program must be continuable");
            vk_check!(r.stack.len() == n, "C13: END inside the program keeps the stack for CONT");
        }
        if 1 == entry {
            vk_check!(code_of_state(&r.cont) == 1, "C13: END as the last program instruction leaves nothing to continue");
        }
    }
    vk_cover!(true, "reach: stop/end statement");
    core::mem::forget(r);
    core::mem::forget(ev);
}

//@ prop: C13
//@ tier: quick
//@ unwind: 12
//@ verbose: off
//@ encodes: Runtime::execute; Runtime::execute_loop (Opcode::Stop dispatch, error bookkeeping)
//@ bounds: program [STOP, END], STOP inside the stored program; stack = [Integer(any), Return(any)]
vk_harness!(c13_stop_inside_program, {
    stop_or_end_statement(true, 2);
});

//@ prop: C13
//@ tier: quick
//@ unwind: 12
//@ verbose: off
//@ encodes: Runtime::execute; Runtime::execute_loop (Opcode::Stop dispatch, error bookkeeping)
//@ bounds: program [STOP, END] as a direct statement; stack = [Integer(any), Return(any)]
vk_harness!(c13_stop_direct, {
    stop_or_end_statement(true, 0);
});

//@ prop: C13
//@ tier: quick
//@ unwind: 12
//@ verbose: off
//@ encodes: Runtime::execute; Runtime::execute_loop (Opcode::End dispatch); Runtime::r#end
//@ bounds: program [END, END], END inside the stored program; stack = [Integer(any), Return(any)]
vk_harness!(c13_end_inside_program, {
    stop_or_end_statement(false, 2);
});

//@ prop: C13
//@ tier: thorough
//@ unwind: 12
//@ verbose: off
//@ encodes: Runtime::execute; Runtime::execute_loop (Opcode::End dispatch); Runtime::r#end
//@ bounds: program [END, END], END as the last program instruction; stack = [Integer(any), Return(any)]
vk_harness!(c13_end_last_instruction, {
    stop_or_end_statement(false, 1);
});


// ---------------------------------------------------------------------------------------------------------------
// C04: "what runs is what LIST shows" reduced to one-step obligations on every path that mutates the listing
// (an edit history is a sequence of such steps; enter_direct recompiles exactly when the flag is set).
use crate::lang::token::Token;
use crate::lang::vh_line::mk_line;

fn line_with_token(n: LineNumber) -> Line {
    let mut t: Vec<Token> = Vec::new();
    t.push(Token::Colon);
    mk_line(n, t)
}
fn has_line(r: &Runtime, n: u16) -> bool {
    // direct look-up in the store (Listing::line would also format the line, which is not the subject here)
    crate::mach::vh_listing::stored(&r.listing, n)
}
/// One stored line with a symbolic number; returns it.
fn one_stored_line(r: &mut Runtime) -> u16 {
    let n = vk::any_u16();
    vk::assume(n <= 65529);
    r.listing.insert(line_with_token(Some(n)));
    n
}

//@ prop: C04
//@ tier: quick
//@ unwind: 12
//@ encodes: Runtime::enter_indirect; Listing::insert; Listing::remove
//@ bounds: listing with one line (any number); entered line: any number, with a token (insert / replace) or without (delete present / delete absent); dirty, cont, cont_pc symbolic
vk_harness!(c04_entering_a_line_marks_dirty, {
    let mut r = Runtime::default();
    let stored = one_stored_line(&mut r);
    let dirty0 = vk::any_bool();
    r.dirty = dirty0;
    r.cont = state_of(vk::any_below(10));
    r.state = State::Stopped;
    havoc_stack(&mut r); // RETURN / NEXT frames of a program that stopped inside subroutines and loops
    let m = vk::any_u16();
    vk::assume(m <= 65529);
    let deletes = vk::any_bool();
    let line = if deletes { mk_line(Some(m), Vec::new()) } else { line_with_token(Some(m)) };
    r.enter_indirect(line);
    let changed = !deletes || m == stored;
    if changed {
        vk_check!(r.dirty, "C04: an edit that changes the stored program must force recompilation before the next statement runs");
    }
    vk_check!(r.dirty || !dirty0, "C04: entering a line must never cancel a pending recompilation");
    vk_check!(code_of_state(&r.cont) == 1, "C04: an edit cancels the continuation point (CONT must not resume into an edited program)");
    if changed {
        vk_check!(r.stack.len() == 0, "C04: an edit discards pending RETURN / NEXT frames of the previous program");
    }
    // the listing reflects exactly the edit
    vk_check!(has_line(&r, m) == !deletes, "C04: the entered line is stored / the bare number deletes it");
    if m != stored {
        vk_check!(has_line(&r, stored), "C04: entering a line must not touch other lines");
    }
    vk_cover!(deletes && m != stored && dirty0, "reach: delete absent line while dirty");
    vk_cover!(deletes && m == stored, "reach: delete present line");
    vk_cover!(!deletes && m == stored, "reach: replace line");
    core::mem::forget(r);
});

//@ prop: C04
//@ tier: quick
//@ unwind: 12
//@ encodes: Runtime::r#new_; Runtime::r#clear; Listing::clear
//@ bounds: listing with one line (any number); dirty, tron, state, cont symbolic; 0..=3 stack entries
vk_harness!(c04_new_empties_and_marks_dirty, {
    let mut r = Runtime::default();
    let stored = one_stored_line(&mut r);
    r.dirty = vk::any_bool();
    r.tron = vk::any_bool();
    r.cont = state_of(vk::any_below(10));
    havoc_stack(&mut r);
    let ev = r.r#new_();
    vk_check!(matches!(ev, Event::Stopped), "C04: NEW stops");
    vk_check!(r.listing.is_empty() && !has_line(&r, stored), "C12: NEW leaves an empty listing");
    vk_check!(r.dirty, "C04: NEW must force recompilation (nothing of the old program may run)");
    vk_check!(code_of_state(&r.cont) == 1 && r.stack.len() == 0, "C04: NEW cancels the continuation and pending RETURN/NEXT frames");
    vk_check!(!r.tron, "C12: NEW switches tracing off");
    vk_cover!(true, "reach: new");
    core::mem::forget(r);
    core::mem::forget(ev);
});

//@ prop: C04
//@ tier: quick
//@ unwind: 12
//@ encodes: Runtime::set_listing (run = false); Runtime::r#new_
//@ bounds: old listing with one line (any number), loaded listing with one line (any number); dirty symbolic
vk_harness!(c04_load_replaces_and_marks_dirty, {
    let mut r = Runtime::default();
    let old = one_stored_line(&mut r);
    r.dirty = vk::any_bool();
    r.cont = state_of(vk::any_below(10));
    let mut l = Listing::default();
    let new = vk::any_u16();
    vk::assume(new <= 65529);
    l.insert(line_with_token(Some(new)));
    r.set_listing(l, false);
    vk_check!(r.dirty, "C04: loading a program must force recompilation");
    vk_check!(has_line(&r, new), "C04: after a load the listing is the loaded program");
    vk_check!(old == new || !has_line(&r, old), "C04: nothing of the previous program survives a load");
    vk_check!(code_of_state(&r.cont) == 1, "C04: a load cancels the continuation point");
    vk_cover!(old != new, "reach: load different program");
    core::mem::forget(r);
});

//@ prop: C04 C15
//@ tier: quick
//@ unwind: 12
//@ encodes: Runtime::r#delete; LineNumber::try_from(Val); Listing::remove_range; Runtime::r#end
//@ bounds: listing with one line (any number); DELETE operands: any Integer-valued Single pair 0..=65529 with from <= to (as the parser guarantees); dirty symbolic; typed directly or executed by a program line
vk_harness!(c04_delete_marks_dirty, {
    let mut r = Runtime::default();
    let stored = one_stored_line(&mut r);
    let dirty0 = vk::any_bool();
    r.dirty = dirty0;
    r.state = State::Running;
    r.cont = state_of(vk::any_below(10));
    // DELETE typed as a direct statement (pc behind the program) or executed by a program line (pc inside it)
    let in_program = vk::any_bool();
    r.pc = if in_program { 1 } else { 5 };
    r.entry_address = 3;
    havoc_stack_upto(&mut r, 1);
    let (a, b) = (vk::any_u16(), vk::any_u16());
    vk::assume(a <= b && b <= 65529);
    r.stack.push(Val::Single(a as f32)).unwrap();
    r.stack.push(Val::Single(b as f32)).unwrap();
    let got = r.r#delete();
    let inside = stored >= a && stored <= b;
    if a == 0 && b == 65529 {
        // the bare form: rejected, nothing changes
        vk_check!(got.is_err(), "C15: a bare DELETE is rejected");
        vk_check!(has_line(&r, stored) && r.dirty == dirty0, "C15: a rejected DELETE changes nothing");
    } else {
        vk_check!(got.is_ok(), "C15: DELETE a-b with a valid range is accepted");
        vk_check!(has_line(&r, stored) == !inside, "C15: DELETE removes exactly the lines inside the inclusive range");
        if inside {
            vk_check!(r.dirty, "C04: DELETE that removed a line must force recompilation");
            vk_check!(code_of_state(&r.cont) == 1 && r.stack.len() == 0, "C04: DELETE that removed a line cancels the continuation and pending RETURN / NEXT frames");
        }
        vk_check!(r.dirty || !dirty0, "C04: DELETE must never cancel a pending recompilation");
    }
    vk_cover!(inside && !(a == 0 && b == 65529) && in_program, "reach: DELETE executed by a program line removes a line");
    vk_cover!(inside && !(a == 0 && b == 65529) && !in_program, "reach: direct DELETE removes a line");
    vk_cover!(!inside, "reach: delete removes nothing");
    core::mem::forget(r);
    core::mem::forget(got);
});

//@ prop: C04 C14
//@ tier: quick
//@ unwind: 12
//@ encodes: Runtime::r#renum; u16::try_from(Val); Listing::renum; Runtime::r#end
//@ bounds: listing with one token-less line (any number); RENUM operands: any u16-valued Single triple; dirty symbolic; direct mode, no compile errors
vk_harness!(c04_renum_marks_dirty, {
    let mut r = Runtime::default();
    let n = vk::any_u16();
    vk::assume(n <= 65529);
    r.listing.insert(mk_line(Some(n), Vec::new()));
    let dirty0 = vk::any_bool();
    r.dirty = dirty0;
    r.state = State::Running;
    r.cont = state_of(vk::any_below(10));
    r.pc = 5;
    r.entry_address = 3;
    havoc_stack_upto(&mut r, 1);
    let (new_start, old_start, step) = (vk::any_u16(), vk::any_u16(), vk::any_u16());
    r.stack.push(Val::Single(new_start as f32)).unwrap();
    r.stack.push(Val::Single(old_start as f32)).unwrap();
    r.stack.push(Val::Single(step as f32)).unwrap();
    let got = r.r#renum();
    let now = if has_line(&r, n) { 1 } else { 0 };
    match got {
        Ok(_) => {
            let renumbered = n >= old_start && new_start != n;
            if renumbered {
                vk_check!(r.dirty, "C04: RENUM that changed a line number must force recompilation");
                vk_check!(now == 0 && has_line(&r, new_start), "C14: the renumbered line is stored under its new number only");
                vk_check!(code_of_state(&r.cont) == 1 && r.stack.len() == 0, "C04: RENUM cancels the continuation and pending RETURN / NEXT frames");
            }
            vk_check!(r.dirty || !dirty0, "C04: RENUM must never cancel a pending recompilation");
        }
        Err(_) => {
            vk_check!(now == 1 && r.dirty == dirty0, "C14: a RENUM that fails must leave the program (and the recompilation flag) unchanged");
        }
    }
    vk_cover!(matches!(got, Ok(_)) && n >= old_start && new_start != n, "reach: renum changes the number");
    vk_cover!(got.is_err(), "reach: renum refused");
    core::mem::forget(r);
    core::mem::forget(got);
});

//@ prop: C04
//@ tier: quick
//@ unwind: 12
//@ encodes: Runtime::enter_direct; Program::clear; Program::codegen (empty listing, empty direct line); Program::link; Link::link
//@ bounds: compiled stale program [Literal(any), Print, End] in memory, listing EMPTY (every line deleted / NEW / empty load), dirty set; direct line without tokens
vk_harness!(c04_recompile_when_listing_emptied, {
    let mut r = Runtime::default();
    // a previously compiled program is still in program memory
    load_ops(&mut r, vec![Opcode::Literal(Val::Integer(vk::any_i16())), Opcode::Print, Opcode::End]);
    let (old_entry, _, _) = r.program.link();
    vk_check!(old_entry == 3, "setup: stale program occupies addresses 0..3");
    r.state = State::Stopped;
    r.dirty = true; // the edits that emptied the listing set the flag
    r.enter_direct(mk_line(None, Vec::new()));
    vk_check!(!r.dirty, "C04: running a direct statement recompiles the edited program and clears the flag");
    // a fresh interpreter with an empty listing compiles to a single END before the direct code
    vk_check!(r.entry_address == 1 && r.pc == 1, "C04: with an empty listing nothing of the old program may remain in program memory (direct code must start at address 1)");
    vk_check!(matches!(r.program.get(0), Some(Opcode::End)), "C04: with an empty listing the stored program compiles to a lone END");
    vk_check!(code_of_state(&r.state) == 4, "C04: the direct statement is ready to run");
    vk_cover!(true, "reach: recompile empty listing");
    core::mem::forget(r);
});

// ---------------------------------------------------------------------------------------------------------------
// C18 / C01: frames on the value stack — RETURN, and what a failed statement leaves behind

fn push_for_frame(r: &mut Runtime) {
    // what FOR leaves on the stack: limit, step, variable name, loop address
    r.stack.push(Val::Integer(vk::any_i16())).unwrap();
    r.stack.push(Val::Integer(vk::any_i16())).unwrap();
    r.stack.push(Val::String("I".into())).unwrap();
    r.stack.push(Val::Next(vk::any_u16() as usize)).unwrap();
}

//@ prop: C18 C01
//@ tier: quick
//@ unwind: 12
//@ caps: VEC=8
//@ encodes: Runtime::r#return; Stack::pop; Stack::push
//@ bounds: stack = [Integer(any)] + Return(any address) + 0 or 1 unfinished FOR frame (limit, step, name, Next) above it; VEC capacity 8
vk_harness!(c18_return_discards_loop_frames, {
    let mut r = Runtime::default();
    r.stack.push(Val::Integer(vk::any_i16())).unwrap();
    let addr = vk::any_u16() as usize;
    r.stack.push(Val::Return(addr)).unwrap();
    let in_loop = vk::any_bool();
    if in_loop {
        push_for_frame(&mut r);
    }
    r.pc = vk::any_u16() as usize;
    let got = r.r#return();
    vk_check!(got.is_ok(), "C01: RETURN with a pending GOSUB must succeed");
    vk_check!(r.pc == addr, "C01: RETURN continues after the GOSUB that pushed the frame");
    vk_check!(r.stack.len() == 1, "C18: RETURN must leave nothing of the subroutine behind (loop frames abandoned inside it included)");
    vk_check!(matches!(r.stack.last(), Some(Val::Integer(_))), "C18: RETURN must not disturb what was on the stack before the GOSUB");
    vk_cover!(in_loop, "reach: return out of an unfinished FOR loop");
    vk_cover!(!in_loop, "reach: plain return");
    core::mem::forget(r);
});

//@ prop: C18 C10
//@ tier: quick
//@ unwind: 12
//@ encodes: Runtime::r#return (function-result form)
//@ bounds: stack = [Integer(any), Return(any address), result] with the result an Integer, a Single or a 1-character string
vk_harness!(c18_return_keeps_function_result, {
    let mut r = Runtime::default();
    r.stack.push(Val::Integer(vk::any_i16())).unwrap();
    let addr = vk::any_u16() as usize;
    r.stack.push(Val::Return(addr)).unwrap();
    let kind = vk::any_below(3);
    let x = vk::any_i16();
    r.stack.push(match kind {
        0 => Val::Integer(x),
        1 => Val::Single(x as f32),
        _ => Val::String("Z".into()),
    })
    .unwrap();
    let got = r.r#return();
    vk_check!(got.is_ok() && r.pc == addr, "C10: returning from a user function resumes after the call");
    vk_check!(r.stack.len() == 2, "C10: exactly one value - the function result - is handed back");
    match (kind, r.stack.last()) {
        (0, Some(Val::Integer(y))) => vk_check!(*y == x, "C10: the function result is handed back unchanged"),
        (1, Some(Val::Single(y))) => vk_check!(*y == x as f32, "C10: the function result is handed back unchanged"),
        (2, Some(Val::String(s))) => vk_check!(&**s == "Z", "C10: the function result is handed back unchanged"),
        _ => vk_check!(false, "C10: the function result was lost or changed type"),
    }
    vk_cover!(kind == 2, "reach: string result");
    core::mem::forget(r);
});

//@ prop: C18
//@ tier: quick
//@ unwind: 12
//@ encodes: Runtime::r#return (no pending GOSUB)
//@ bounds: stack = 0..=3 entries none of which is a Return frame (Integers and Next frames)
vk_harness!(c18_return_without_gosub, {
    let mut r = Runtime::default();
    let n = vk::any_below(4) as usize;
    let mut i = 0;
    while i < n {
        let v = if vk::any_bool() { Val::Integer(vk::any_i16()) } else { Val::Next(vk::any_u16() as usize) };
        r.stack.push(v).unwrap();
        i += 1;
    }
    let got = r.r#return();
    match got {
        Err(e) => vk_check!(ec::code_of(&e) == 3, "C01: RETURN without a pending GOSUB is RETURN WITHOUT GOSUB"),
        Ok(()) => vk_check!(false, "C01: RETURN succeeded without a pending GOSUB"),
    }
    vk_cover!(n == 3, "reach: three entries");
    core::mem::forget(r);
});

// ---------------------------------------------------------------------------------------------------------------
// C11: the cursor column is "characters since the last newline"

//@ prop: C11
//@ tier: quick
//@ unwind: 12
//@ encodes: Runtime::r#print (string item); Stack::pop
//@ bounds: printed string of 0..=3 characters, each any ASCII character (newline included, at any position); cursor column any u8 before
//@ verbose: off
vk_harness!(c11_print_tracks_column, {
    let mut r = Runtime::default();
    let col0 = vk::any_u8() as usize;
    r.print_col = col0;
    let n = vk::any_below(4) as usize;
    let mut chars = [0u8; 3];
    let mut s = String::new();
    let mut i = 0;
    while i < 3 {
        let c = vk::any_u8();
        vk::assume(c < 128);
        chars[i] = c;
        if i < n {
            s.push(c as char);
        }
        i += 1;
    }
    r.stack.push(Val::String(s.into())).unwrap();
    let got = r.r#print();
    // oracle: characters since the last newline, carried over from the column before
    let mut want = col0;
    let mut j = 0;
    while j < 3 {
        if j < n {
            if chars[j] == b'\n' {
                want = 0;
            } else {
                want += 1;
            }
        }
        j += 1;
    }
    vk_check!(r.print_col == want, "C11: the cursor column is the number of characters since the last newline");
    match got {
        Ok(Event::Print(text)) => vk_check!(text.len() == n, "C11: PRINT emits exactly the item's characters"),
        _ => vk_check!(false, "C11: PRINT of a string must emit it"),
    }
    vk_cover!(n == 3 && chars[1] == b'\n' && chars[2] != b'\n', "reach: embedded newline");
    vk_cover!(n == 0, "reach: empty string");
    core::mem::forget(r);
});

// ---------------------------------------------------------------------------------------------------------------
// C17 / C03: one INPUT field is converted for its variable

//@ prop: C17 C03
//@ tier: quick
//@ unwind: 12
//@ encodes: Runtime::r#input (string-variable arm: blank stripping, one pair of enclosing quotes)
//@ bounds: reply field of 0..=4 characters, each a double quote, a blank or a letter; variable A$; VM in the state after a reply was accepted
vk_harness!(c17_input_string_field, {
    let mut r = Runtime::default();
    r.state = State::InputRunning;
    let n = vk::any_below(5) as usize;
    let mut chars = [0u8; 4];
    let mut s = String::new();
    let mut i = 0;
    while i < 4 {
        let c = match vk::any_below(3) {
            0 => b'"',
            1 => b' ',
            _ => b'x',
        };
        chars[i] = c;
        if i < n {
            s.push(c as char);
        }
        i += 1;
    }
    r.stack.push(Val::String(s.into())).unwrap();
    let got = r.r#input("A$".into());
    // oracle: strip blanks at both ends, then one pair of enclosing quotes if the rest is at least two characters
    let mut lo = 0;
    let mut hi = n;
    while lo < hi && chars[lo] == b' ' {
        lo += 1;
    }
    while hi > lo && chars[hi - 1] == b' ' {
        hi -= 1;
    }
    if hi - lo >= 2 && chars[lo] == b'"' && chars[hi - 1] == b'"' {
        lo += 1;
        hi -= 1;
    }
    vk_check!(matches!(got, Ok(None)), "C17: a string field is always acceptable; C03: it must never crash");
    match r.stack.last() {
        Some(Val::String(v)) => {
            vk_check!(v.len() == hi - lo, "C17: a string field is the reply without surrounding blanks and without one pair of enclosing quotes");
            let vb = v.as_bytes();
            let mut k = 0;
            while k < 4 {
                if k < hi - lo && k < vb.len() {
                    vk_check!(vb[k] == chars[lo + k], "C17: the field's characters are preserved");
                }
                k += 1;
            }
        }
        _ => vk_check!(false, "C17: the converted field must be left on the stack for the assignment"),
    }
    vk_cover!(n == 1 && chars[0] == b'"', "reach: lone quote");
    vk_cover!(n == 2 && chars[0] == b'"' && chars[1] == b'"', "reach: empty quoted string");
    vk_cover!(n == 4 && chars[0] == b' ' && chars[1] == b'"', "reach: blank then quote");
    core::mem::forget(r);
    core::mem::forget(got);
});

// ---------------------------------------------------------------------------------------------------------------
// C10: calling and defining user functions, one VM step each

//@ prop: C10
//@ tier: quick
//@ unwind: 12
//@ encodes: Runtime::r#fn; RuntimeStackTrait::pop_vec; Stack::pop_n
//@ bounds: function table with FNA of symbolic arity 0..=2 at a symbolic address; call of FNA or of the undefined FNB with 2 symbolic Integer arguments; one value below them on the stack
vk_harness!(c10_call_step, {
    let mut r = Runtime::default();
    let arity = vk::any_below(3) as usize;
    let addr = vk::any_u16() as usize;
    r.functions.insert("FNA".into(), (arity, addr));
    let nargs = 2usize; // two arguments on the stack (concrete shape), arity of the callee symbolic
    let defined = vk::any_bool();
    let pc0 = vk::any_u16() as usize;
    r.pc = pc0;
    r.stack.push(Val::Integer(77)).unwrap();
    let (a0, a1) = (vk::any_i16(), vk::any_i16());
    if nargs >= 1 {
        r.stack.push(Val::Integer(a0)).unwrap();
    }
    if nargs >= 2 {
        r.stack.push(Val::Integer(a1)).unwrap();
    }
    r.stack.push(Val::Integer(nargs as i16)).unwrap();
    let got = r.r#fn(if defined { "FNA".into() } else { "FNB".into() });
    if !defined {
        match got {
            Err(e) => vk_check!(ec::code_of(&e) == 18, "C10: calling an undefined function is UNDEFINED USER FUNCTION"),
            Ok(()) => vk_check!(false, "C10: an undefined function was called"),
        }
    } else if nargs != arity {
        match got {
            Err(e) => vk_check!(ec::code_of(&e) == ec::ILLEGAL_FUNCTION_CALL, "C10: a wrong argument count is ILLEGAL FUNCTION CALL"),
            Ok(()) => vk_check!(false, "C10: a call with the wrong number of arguments was accepted"),
        }
    } else {
        vk_check!(got.is_ok(), "C10: a call with the right number of arguments must succeed");
        vk_check!(r.pc == addr, "C10: the call continues at the function body");
        // return address under the arguments; arguments in reverse so that the body pops the first parameter first
        vk_check!(r.stack.len() == 2 + nargs, "C10: the call leaves the return address and exactly the arguments");
        vk_check!(matches!(r.stack.get(1), Some(Val::Return(p)) if *p == pc0), "C10: the return address is the instruction after the call");
        if nargs == 2 {
            vk_check!(matches!(r.stack.get(2), Some(Val::Integer(x)) if *x == a1), "C10: the last argument is deepest");
            vk_check!(matches!(r.stack.get(3), Some(Val::Integer(x)) if *x == a0), "C10: the first argument is on top");
        }
        if nargs == 1 {
            vk_check!(matches!(r.stack.get(2), Some(Val::Integer(x)) if *x == a0), "C10: the argument is on top");
        }
    }
    vk_cover!(defined && nargs == arity && nargs == 2, "reach: two-argument call");
    vk_cover!(defined && nargs != arity, "reach: wrong arity");
    core::mem::forget(r);
});

//@ prop: C10
//@ tier: quick
//@ unwind: 12
//@ encodes: Runtime::r#def
//@ bounds: DEF executed at a symbolic pc inside the program or in direct mode; parameter count 0..=3; function table empty before
vk_harness!(c10_def_step, {
    let mut r = Runtime::default();
    let (pc0, entry) = (vk::any_u16() as usize, vk::any_u16() as usize);
    r.pc = pc0;
    r.entry_address = entry;
    let n = vk::any_below(4) as i16;
    r.stack.push(Val::Integer(n)).unwrap();
    let got = r.r#def("FNA".into());
    if pc0 >= entry {
        match got {
            Err(e) => vk_check!(ec::code_of(&e) == 12, "C10: DEF in direct mode is ILLEGAL DIRECT"),
            Ok(()) => vk_check!(false, "C10: DEF was accepted in direct mode"),
        }
        vk_check!(r.functions.len() == 0, "C10: a refused DEF defines nothing");
    } else {
        vk_check!(got.is_ok(), "C10: DEF inside a program succeeds");
        match r.functions.get("FNA") {
            Some((arity, addr)) => vk_check!(*arity == n as usize && *addr == pc0 + 1, "C10: DEF records the parameter count and the body address (after the skip jump)"),
            None => vk_check!(false, "C10: DEF did not define the function"),
        }
    }
    vk_cover!(pc0 < entry, "reach: def in program");
    vk_cover!(pc0 >= entry, "reach: def in direct mode");
    core::mem::forget(r);
});

// ---------------------------------------------------------------------------------------------------------------
// C19: a program with compile-time errors executes none of its lines

fn jump_into_program_with_errors(target: usize) {
    let mut r = Runtime::default();
    // stored program at address 0 (one instruction), direct code from address 1: GOTO / RUN compile to a jump
    load_ops(&mut r, vec![Opcode::Literal(Val::Integer(1)), Opcode::Jump(target), Opcode::End]);
    r.entry_address = 1;
    r.pc = 1;
    r.state = State::Running;
    let mut errs: Vec<Error> = Vec::new();
    errs.push(error!(UndefinedLine, Some(vk::any_u16()), ..&(1..2)));
    r.listing.indirect_errors = Arc::new(errs);
    let ev = r.execute(3);
    if target < 1 {
        vk_check!(matches!(&ev, Event::Errors(v) if v.len() == 1), "C19: entering a program that has compile-time errors reports them");
        vk_check!(code_of_state(&r.state) == 1 && code_of_state(&r.cont) == 1, "C19: ... and stops without a continuation");
        vk_check!(r.stack.len() == 0, "C19: none of the program's instructions may have executed");
    } else {
        vk_check!(!matches!(&ev, Event::Errors(_)), "C19: a direct statement that does not enter the program still works");
        vk_check!(code_of_state(&r.state) == 1, "C19: the direct statement ran to its END");
    }
    vk_cover!(true, "reach: jump with compile errors present");
    core::mem::forget(r);
    core::mem::forget(ev);
}

//@ prop: C19
//@ tier: quick
//@ unwind: 12
//@ verbose: off
//@ encodes: Runtime::execute; Runtime::execute_loop (Opcode::Jump gate on indirect errors)
//@ bounds: program of one instruction with one recorded compile-time error (any line number); direct code jumps INTO the program (address 0)
vk_harness!(c19_jump_into_program_with_errors_stops, {
    jump_into_program_with_errors(0);
});

//@ prop: C19
//@ tier: quick
//@ unwind: 12
//@ verbose: off
//@ encodes: Runtime::execute; Runtime::execute_loop (Opcode::Jump gate on indirect errors)
//@ bounds: program of one instruction with one recorded compile-time error; direct code jumps within the DIRECT code (address 2)
vk_harness!(c19_direct_jump_still_works_with_errors, {
    jump_into_program_with_errors(2);
});

//@ prop: C19
//@ tier: quick
//@ unwind: 12
//@ verbose: off
//@ encodes: Runtime::execute; Runtime::execute_loop (Opcode::Jump gate on indirect errors)
//@ bounds: program of one instruction with one recorded compile-time error; ONE step: the back jump of a direct loop whose target is the FIRST direct instruction (address == entry address, as the WEND of a direct WHILE does)
vk_harness!(c19_direct_back_jump_to_the_first_direct_instruction_with_errors, {
    let mut r = Runtime::default();
    load_ops(&mut r, vec![Opcode::Literal(Val::Integer(1)), Opcode::Literal(Val::Integer(7)), Opcode::Jump(1), Opcode::End]);
    r.entry_address = 1;
    r.pc = 2;
    r.state = State::Running;
    let mut errs: Vec<Error> = Vec::new();
    errs.push(error!(UndefinedLine, Some(vk::any_u16()), ..&(1..2)));
    r.listing.indirect_errors = Arc::new(errs);
    let ev = r.execute(1);
    vk_check!(!matches!(&ev, Event::Errors(_)), "C19: a direct loop that never enters the program still works while the program has errors");
    vk_check!(r.pc == 1 && code_of_state(&r.state) == 4, "C19: the back jump was taken and the direct statement keeps running");
    vk_cover!(true, "reach: back jump to the first direct instruction");
    core::mem::forget(r);
    core::mem::forget(ev);
});

//@ prop: C17
//@ tier: quick
//@ unwind: 12
//@ caps: VEC=6
//@ encodes: Runtime::do_input (reply splitting at commas outside quotes, field count check, staging on the stack)
//@ bounds: reply of 0..=3 characters, each a comma, a double quote or a letter; INPUT with 1, 2 or 3 variables
vk_harness!(c17_reply_is_split_at_commas_outside_quotes, {
    let mut r = Runtime::default();
    r.state = State::Input;
    let nvars = 1 + vk::any_below(3) as i16;
    r.pc = 9;
    r.stack.push(Val::Integer(nvars)).unwrap();
    let n = vk::any_below(4) as usize;
    let mut chars = [0u8; 3];
    let mut s = String::new();
    let mut i = 0;
    while i < 3 {
        let c = match vk::any_below(3) {
            0 => b',',
            1 => b'"',
            _ => b'x',
        };
        chars[i] = c;
        if i < n {
            s.push(c as char);
        }
        i += 1;
    }
    let got = r.do_input(s.as_str());
    vk_check!(got.is_ok(), "C17: splitting a reply never fails");
    // reference: commas outside double quotes separate fields
    let mut commas = 0;
    let mut inq = false;
    let mut j = 0;
    while j < 3 {
        if j < n {
            if chars[j] == b'"' {
                inq = !inq;
            } else if chars[j] == b',' && !inq {
                commas += 1;
            }
        }
        j += 1;
    }
    let fields = if nvars == 1 { 1 } else { commas + 1 };
    if fields as i16 == nvars {
        vk_check!(code_of_state(&r.state) == 7, "C17: a reply with exactly as many fields as variables is accepted");
        vk_check!(r.stack.len() == 2 + nvars as usize, "C17: one staged field per variable (above the statement's frame)");
    } else {
        vk_check!(code_of_state(&r.state) == 6, "C17: a wrong field count gives REDO FROM START");
        vk_check!(r.stack.len() == 1, "C17: a rejected reply stages nothing (the retry is atomic)");
    }
    vk_cover!(nvars == 2 && commas == 1, "reach: two fields for two variables");
    vk_cover!(nvars == 1 && commas > 0, "reach: single variable takes the whole reply");
    vk_cover!(nvars == 3 && fields != 3, "reach: redo");
    core::mem::forget(r);
});

// ---------------------------------------------------------------------------------------------------------------
// C06: SWAP; C01: NEXT; C07: MID$ assignment — one VM step each

//@ prop: C06
//@ tier: quick
//@ unwind: 12
//@ encodes: Runtime::r#swap; Stack::pop_2
//@ bounds: two values on the stack, each an Integer, a Single, a Double (symbolic payloads) or a 1-character string; one value below them
vk_harness!(c06_swap_step, {
    let mut r = Runtime::default();
    r.stack.push(Val::Integer(5)).unwrap();
    let (k1, k2) = (vk::any_below(4), vk::any_below(4));
    let (a, b) = (vk::any_i16(), vk::any_i16());
    let mk = |k: u8, x: i16, s: &str| match k {
        0 => Val::Integer(x),
        1 => Val::Single(x as f32),
        2 => Val::Double(x as f64),
        _ => Val::String(s.into()),
    };
    r.stack.push(mk(k1, a, "P")).unwrap();
    r.stack.push(mk(k2, b, "Q")).unwrap();
    let got = r.r#swap();
    vk_check!(r.stack.len() == 3, "C06: SWAP leaves both values on the stack");
    let (first, second) = (r.stack.get(1).cloned(), r.stack.get(2).cloned());
    if k1 == k2 {
        // the code generator stores the top of the stack into the FIRST variable, then the next into the SECOND: the order
        // on the stack must be unchanged for the two stores to exchange the variables
        vk_check!(got.is_ok(), "C06: SWAP of two same-typed variables succeeds");
        vk_check!(first == Some(mk(k1, a, "P")) && second == Some(mk(k2, b, "Q")), "C06: SWAP hands both values on for the exchange");
    } else {
        match got {
            Err(e) => vk_check!(ec::code_of(&e) == ec::TYPE_MISMATCH, "C06: SWAP of differently typed variables is TYPE MISMATCH"),
            Ok(()) => vk_check!(false, "C06: SWAP accepted mixed types"),
        }
        // the statement is abandoned, so the variables keep their values; the two operands stay on the stack in either order
        let same = first == Some(mk(k1, a, "P")) && second == Some(mk(k2, b, "Q"));
        let flipped = first == Some(mk(k2, b, "Q")) && second == Some(mk(k1, a, "P"));
        vk_check!(same || flipped, "C06: a rejected SWAP neither loses nor alters a value");
    }
    vk_cover!(k1 == 3 && k2 == 3, "reach: swap strings");
    vk_cover!(k1 != k2, "reach: mixed types");
    core::mem::forget(r);
});

//@ prop: C07
//@ tier: quick
//@ unwind: 12
//@ encodes: Runtime::r#letmid; usize::try_from(Val); Rc<str>::try_from(Val)
//@ bounds: target string fixed to ABCD, inserted string fixed to xy; position and length any Integer
vk_harness!(c07_mid_assignment_step, {
    let mut r = Runtime::default();
    let (pos, len) = (vk::any_i16(), vk::any_i16());
    r.stack.push(Val::String("ABCD".into())).unwrap();
    r.stack.push(Val::String("xy".into())).unwrap();
    r.stack.push(Val::Integer(len)).unwrap();
    r.stack.push(Val::Integer(pos)).unwrap();
    let got = r.r#letmid();
    if pos <= 0 || len < 0 {
        vk_check!(got.is_err(), "C07: MID$ assignment with position 0 or a negative argument is a BASIC error");
    } else {
        vk_check!(got.is_ok(), "C07: MID$ assignment with valid arguments succeeds");
        // characters pos..pos+min(len, 2) of ABCD are replaced, the length never changes
        let orig = [b'A', b'B', b'C', b'D'];
        let ins = [b'x', b'y'];
        let mut want = orig;
        let mut used = 0usize;
        let mut i = 0usize;
        while i < 4 {
            if i + 1 >= pos as usize && used < len as usize && used < 2 {
                want[i] = ins[used];
                used += 1;
            }
            i += 1;
        }
        match r.stack.last() {
            Some(Val::String(s)) => {
                let b = s.as_bytes();
                vk_check!(b.len() == 4 && b[0] == want[0] && b[1] == want[1] && b[2] == want[2] && b[3] == want[3],
                    "C07: MID$(A$,p,n)=B$ overwrites at most n characters from position p and never changes the length");
            }
            _ => vk_check!(false, "C07: MID$ assignment leaves the new string on the stack"),
        }
    }
    vk_cover!(pos == 4 && len >= 2, "reach: replacement cut off at the end");
    vk_cover!(pos == 2 && len == 1, "reach: one character replaced");
    core::mem::forget(r);
});

//@ prop: C01
//@ tier: quick
//@ unwind: 12
//@ caps: VEC=6
//@ encodes: Runtime::r#next; Var::fetch; Var::store; Operation::sum; Operation::less
//@ bounds: one FOR frame (limit, step, variable I%, loop address) with Integer limit, step and current value all symbolic; one value below the frame
vk_harness!(c01_next_step, {
    let mut r = Runtime::default();
    let (cur, step, to) = (vk::any_i16(), vk::any_i16(), vk::any_i16());
    let addr = vk::any_u16() as usize;
    let pc0 = vk::any_u16() as usize;
    r.pc = pc0;
    crate::mach::vh_var::raw_insert(&mut r.vars, "I%", Val::Integer(cur));
    r.stack.push(Val::Integer(9)).unwrap();
    r.stack.push(Val::Integer(to)).unwrap();
    r.stack.push(Val::Integer(step)).unwrap();
    r.stack.push(Val::String("I%".into())).unwrap();
    r.stack.push(Val::Next(addr)).unwrap();
    let got = r.r#next("I%".into());
    let exact = cur as i32 + step as i32;
    if exact > 32767 || exact < -32768 {
        vk_check!(got.is_err(), "C01: NEXT that overflows the loop variable is an error");
    } else {
        vk_check!(got.is_ok(), "C01: NEXT with a pending FOR succeeds");
        let now = crate::mach::vh_var::raw_get(&r.vars, "I%");
        let stored = match now {
            Some(Val::Integer(v)) => v as i32,
            None => 0,
            _ => 99999,
        };
        vk_check!(stored == exact, "C01: NEXT adds the step to the loop variable");
        let done = if step < 0 { exact < to as i32 } else { exact > to as i32 };
        if done {
            vk_check!(r.pc == pc0 && r.stack.len() == 1, "C01: a finished loop falls through and its frame is gone");
        } else {
            vk_check!(r.pc == addr && r.stack.len() == 5, "C01: an unfinished loop jumps back to its body and keeps its frame");
            vk_check!(matches!(r.stack.last(), Some(Val::Next(a)) if *a == addr), "C01: the frame is pushed back unchanged");
        }
    }
    vk_cover!(step < 0 && exact >= -32768 && exact < to as i32, "reach: descending loop finished");
    vk_cover!(step > 0 && exact <= to as i32, "reach: ascending loop continues");
    core::mem::forget(r);
});

// ---------------------------------------------------------------------------------------------------------------
// C18 / C03: a statement that fails leaves the VM at the prompt, with the stack discarded unless the program can be continued

fn failing_statement(entry: usize) {
    let mut r = Runtime::default();
    // PRINT -"S" : a string literal, unary minus (TYPE MISMATCH), END
    load_ops(&mut r, vec![Opcode::Literal(Val::String("S".into())), Opcode::Neg, Opcode::End]);
    r.state = State::Running;
    r.pc = 0;
    r.entry_address = entry; // 0: the statement is direct code; 3: it is inside the stored program
    r.stack.push(Val::Return(vk::any_u16() as usize)).unwrap(); // a pending GOSUB frame
    let ev = r.execute(5);
    vk_check!(matches!(ev, Event::Running), "C03: a failing statement ends the slice without a crash");
    vk_check!(code_of_state(&r.state) == 3, "C03: every failure is held as a BASIC error");
    if entry == 0 {
        vk_check!(r.stack.len() == 0 && code_of_state(&r.cont) == 1, "C18: an error in direct mode discards the stack, nothing can be continued");
    } else {
        vk_check!(code_of_state(&r.cont) == 4 && r.cont_pc == 2, "C13: an error inside the program saves the position");
        vk_check!(r.stack.len() == 1, "C18: the failed statement's own operands are gone, the program's frames are kept");
    }
    let ev2 = r.execute(5);
    vk_check!(first_error_code(&ev2) == Some(ec::TYPE_MISMATCH), "C03: the failure is reported as the BASIC error it is");
    vk_check!(code_of_state(&r.state) == 1, "C03: after the report the interpreter is stopped at the prompt and accepts the next line");
    vk_cover!(true, "reach: failing statement");
    core::mem::forget(r);
    core::mem::forget(ev);
    core::mem::forget(ev2);
}

//@ prop: C18 C03
//@ tier: quick
//@ unwind: 12
//@ verbose: off
//@ encodes: Runtime::execute (error bookkeeping, error reporting); Runtime::execute_loop (Literal, Neg dispatch); Operation::negate
//@ bounds: direct statement that fails with TYPE MISMATCH; a pending GOSUB frame (any address) on the stack
vk_harness!(c18_error_in_direct_mode_clears_the_stack, {
    failing_statement(0);
});

//@ prop: C18 C03
//@ tier: quick
//@ unwind: 12
//@ verbose: off
//@ encodes: Runtime::execute (error bookkeeping, error reporting); Runtime::execute_loop (Literal, Neg dispatch); Operation::negate
//@ bounds: program statement that fails with TYPE MISMATCH; a pending GOSUB frame (any address) on the stack
vk_harness!(c18_error_in_program_keeps_frames, {
    failing_statement(3);
});

// ---------------------------------------------------------------------------------------------------------------
// C12: CLEAR at the VM level

//@ prop: C12
//@ tier: quick
//@ unwind: 28
//@ encodes: Runtime::r#clear; Var::clear; Program::restore_data; Link::restore_data; Stack::clear
//@ stubs: rand::random::<u32>() = any u32
//@ bounds: arbitrary DEFtype table, one stored variable, one dimensioned array, one user function, 0..=3 stack entries (RETURN / NEXT frames included), any saved continuation, DATA pointer anywhere < 2^16
vk_harness!(c12_clear_step, {
    let mut r = Runtime::default();
    crate::mach::vh_var::havoc_types(&mut r.vars);
    crate::mach::vh_var::raw_insert(&mut r.vars, "A%", Val::Integer(vk::any_i16()));
    crate::mach::vh_var::add_dim(&mut r.vars, "B", 3);
    r.functions.insert("FNA".into(), (1, vk::any_u16() as usize));
    havoc_stack(&mut r);
    r.cont = state_of(vk::any_below(10));
    crate::mach::vh_link::set_data_pos(crate::mach::vh_program::link_mut(&mut r.program), vk::any_u16() as usize);
    r.r#clear();
    vk_check!(crate::mach::vh_var::is_pristine(&r.vars), "C12: CLEAR leaves every variable, array and type default as at start-up");
    vk_check!(r.functions.len() == 0, "C12: CLEAR forgets user functions");
    vk_check!(r.stack.len() == 0, "C12: CLEAR drops abandoned FOR / GOSUB frames");
    vk_check!(code_of_state(&r.cont) == 1, "C12: CLEAR cancels the continuation");
    vk_check!(crate::mach::vh_link::data_pos(crate::mach::vh_program::link_of(&r.program)) == 0, "C12 / C09: CLEAR (and therefore RUN) rewinds the DATA pointer");
    vk_check!(r.rand.0 >= 1 && r.rand.1 >= 1 && r.rand.2 >= 1, "C12: the random generator is reseeded with non-zero state");
    vk_cover!(true, "reach: clear");
    core::mem::forget(r);
});

// ---------------------------------------------------------------------------------------------------------------
// C13: behaviour does not depend on how many instructions each execute() call is given (opcode programs)

fn slicing_independent(a: usize, b: usize) {
    let (x, y) = (vk::any_i16(), vk::any_i16());
    let mk = || {
        let mut r = Runtime::default();
        load_ops(&mut r, vec![Opcode::Literal(Val::Integer(x)), Opcode::Literal(Val::Integer(y)), Opcode::Sub, Opcode::End]);
        r.state = State::Running;
        r.pc = 0;
        r.entry_address = 4;
        r
    };
    let mut one = mk();
    let e1 = one.execute(a + b);
    let mut two = mk();
    let e2a = two.execute(a);
    let e2b = two.execute(b);
    // same final VM state; the sliced run only adds "still running" events
    vk_check!(one.pc == two.pc && code_of_state(&one.state) == code_of_state(&two.state), "C13: slicing the run must not change where it ends");
    vk_check!(one.stack.len() == two.stack.len(), "C13: slicing the run must not change the stack");
    let same_top = match (one.stack.last(), two.stack.last()) {
        (Some(Val::Integer(p)), Some(Val::Integer(q))) => p == q,
        (None, None) => true,
        _ => false,
    };
    vk_check!(same_top, "C13: slicing the run must not change computed values");
    vk_check!(code_of_state(&one.cont) == code_of_state(&two.cont) && one.cont_pc == two.cont_pc, "C13: slicing the run must not change the continuation");
    vk_check!(matches!(e2a, Event::Running), "C13: a slice that exhausts its budget reports Running");
    vk_cover!(true, "reach: sliced run");
    core::mem::forget(one);
    core::mem::forget(two);
    core::mem::forget(e1);
    core::mem::forget(e2a);
    core::mem::forget(e2b);
}

//@ prop: C13
//@ tier: quick
//@ unwind: 12
//@ verbose: off
//@ encodes: Runtime::execute; Runtime::execute_loop (instruction budget; Literal, Sub, End dispatch); error bookkeeping when the subtraction overflows
//@ bounds: program [Literal x, Literal y, Sub, End] with x, y any Integer; budget 4 in one call versus 1 + 3
vk_harness!(c13_slicing_1_3, {
    slicing_independent(1, 3);
});

//@ prop: C13
//@ tier: quick
//@ unwind: 12
//@ verbose: off
//@ encodes: Runtime::execute; Runtime::execute_loop (instruction budget; Literal, Sub, End dispatch); error bookkeeping when the subtraction overflows
//@ bounds: program [Literal x, Literal y, Sub, End] with x, y any Integer; budget 4 in one call versus 2 + 2
vk_harness!(c13_slicing_2_2, {
    slicing_independent(2, 2);
});


//@ prop: C13
//@ tier: quick
//@ unwind: 12
//@ verbose: off
//@ encodes: Runtime::execute (direct line rejected at compile time: direct_errors gate)
//@ bounds: a program paused with a saved continuation (state Running, any position); a direct line with one compile-time error was just entered (pc == entry_address, nothing executed)
vk_harness!(c13_rejected_direct_line_keeps_continuation, {
    let mut r = Runtime::default();
    // what enter_direct leaves behind for a line that does not compile
    r.state = State::Running;
    let entry = vk::any_u16() as usize;
    r.pc = entry;
    r.entry_address = entry;
    let mut errs: Vec<Error> = Vec::new();
    errs.push(error!(SyntaxError));
    r.listing.direct_errors = Arc::new(errs);
    // the paused program
    r.cont = State::Running;
    let cpc = vk::any_u16() as usize;
    r.cont_pc = cpc;
    r.stack.push(Val::Return(vk::any_u16() as usize)).unwrap();
    let ev = r.execute(5);
    vk_check!(matches!(&ev, Event::Errors(v) if v.len() == 1), "C19: the compile-time error of the direct line is reported");
    vk_check!(code_of_state(&r.state) == 1, "C03: the interpreter is back at the prompt");
    vk_check!(code_of_state(&r.cont) == 4 && r.cont_pc == cpc && r.stack.len() == 1, "C13: a direct line that never ran must not disturb the paused program (CONT still resumes it)");
    vk_cover!(true, "reach: rejected direct line");
    core::mem::forget(r);
    core::mem::forget(ev);
});
