//! Child of `mach::program`: read access to the private link object.
use super::*;
use crate::vk;

pub(crate) fn link_of(p: &Program) -> &Link {
    &p.link
}
pub(crate) fn link_mut(p: &mut Program) -> &mut Link {
    &mut p.link
}
pub(crate) fn direct_address(p: &Program) -> Address {
    p.direct_address
}
pub(crate) fn set_direct_address(p: &mut Program, a: Address) {
    p.direct_address = a;
}

// ---------------------------------------------------------------------------------------------------------------
// C01 / C20: sealing the program (`Program::link`): whatever is located at the very end of the program -- the else label of
// `IF X THEN END` on the last line, a trailing line without code that is the target of a GOTO -- must stay inside the program,
// in front of the address at which direct statements are compiled.

//@ prop: C01 C20
//@ tier: quick
//@ unwind: 10
//@ encodes: Program::link (closing End, direct_address); Link::ends_with_symbol; Link::push_ifnot; Link::push_goto; Link::push_symbol; Link::next_symbol; Link::link
//@ bounds: program of one line = [branch, last instruction]; branch = IFNOT to a statement-local label or GOTO to a line with any number 1..=65529; the label / that line located at the end of the program (or, for the line, in front of the last instruction); last instruction END or CLEAR
vk_harness!(c20_labels_at_the_end_of_the_program_stay_in_the_program, {
    let mut p = Program::default();
    let local = vk::any_bool();
    let at_end = vk::any_bool();
    let last_is_end = vk::any_bool();
    let line = vk::any_u16();
    vk::assume(line >= 1 && line <= 65529);
    p.link.push_symbol(0);
    let label = if local {
        let s = p.link.next_symbol();
        p.link.push_ifnot(1..2, s).unwrap();
        s
    } else {
        p.link.push_goto(1..2, Some(line)).unwrap();
        line as Symbol
    };
    if !at_end && !local {
        p.link.push_symbol(label);
    }
    p.link.push(if last_is_end { Opcode::End } else { Opcode::Clear }).unwrap();
    if at_end || local {
        p.link.push_symbol(label);
    }
    let (direct, indirect_errors, errors) = p.link();
    vk_check!(indirect_errors.is_empty() && errors.is_empty(), "C20: the program links cleanly");
    vk_check!(direct == p.link.len() && direct >= 2, "C20: direct statements are compiled behind the program");
    vk_check!(matches!(p.link.get(direct - 1), Some(Opcode::End)), "C01: the program is closed by an END in front of the direct line");
    let target = match p.link.get(0) {
        Some(Opcode::IfNot(a)) => *a,
        Some(Opcode::Jump(a)) => *a,
        _ => usize::MAX,
    };
    vk_check!(target < direct, "C20: a branch inside the program never lands on the direct line (a label at the end of the program is in front of the closing END)");
    vk_cover!(local && last_is_end, "reach: IF X THEN END as the last statement");
    vk_cover!(!local && at_end && last_is_end, "reach: GOTO to a trailing line without code behind END");
    core::mem::forget(p);
    core::mem::forget(indirect_errors);
    core::mem::forget(errors);
});
