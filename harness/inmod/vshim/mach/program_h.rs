//! Child of `mach::program`: read access to the private link object.
use super::*;

pub(crate) fn link_of(p: &Program) -> &Link {
    &p.link
}
pub(crate) fn link_mut(p: &mut Program) -> &mut Link {
    &mut p.link
}
pub(crate) fn direct_address(p: &Program) -> Address {
    p.direct_address
}
pub(crate) fn set_direct_address(p: &mut Program, a: Address) {
    p.direct_address = a;
}
