//! In-module harnesses for `mach::listing` on the vshim build: the program store (C15) and RENUM's numbering (C14).
//! Lines are built directly (number + one token), so no lexing is involved.
use super::*;
use crate::lang::token::Token;
use crate::lang::vh_error as ec;
use crate::lang::vh_line::mk_line;
use crate::vk;
use crate::vshim::prelude::*;

const MAXLN: u16 = 65529;

fn one_token_line(n: u16, id: usize) -> Line {
    let mut t: Vec<Token> = Vec::new();
    t.push(Token::Whitespace(id));
    mk_line(Some(n), t)
}
/// The pre-state of every store harness: three stored lines with arbitrary numbers n0 < n1 < n2 <= 65529. The map is built
/// directly (concrete shape, symbolic keys) — every reachable 3-line listing has this form, whatever order it was typed in;
/// that `insert` keeps the map ordered from any such state is what c15_insert_replaces_remove_deletes checks.
fn three_lines(l: &mut Listing) -> [u16; 3] {
    three_lines_with(l, true)
}
/// `with_token == false`: lines without tokens (cannot be typed in, but the store does not care) — used where the harness
/// has to format a symbolically selected line and token formatting would only add cost.
fn two_token_lines(l: &mut Listing) -> [u16; 2] {
    let (n0, n1) = (vk::any_u16(), vk::any_u16());
    vk::assume(n0 < n1 && n1 <= MAXLN);
    let m = Arc::get_mut(&mut l.source).unwrap();
    m.harness_push_ascending(Some(n0), one_token_line(n0, 1));
    m.harness_push_ascending(Some(n1), one_token_line(n1, 2));
    [n0, n1]
}
fn two_lines(l: &mut Listing) -> [u16; 2] {
    let (n0, n1) = (vk::any_u16(), vk::any_u16());
    vk::assume(n0 < n1 && n1 <= MAXLN);
    let m = Arc::get_mut(&mut l.source).unwrap();
    m.harness_push_ascending(Some(n0), mk_line(Some(n0), Vec::new()));
    m.harness_push_ascending(Some(n1), mk_line(Some(n1), Vec::new()));
    [n0, n1]
}
fn three_lines_with(l: &mut Listing, with_token: bool) -> [u16; 3] {
    let (n0, n1, n2) = (vk::any_u16(), vk::any_u16(), vk::any_u16());
    vk::assume(n0 < n1 && n1 < n2 && n2 <= MAXLN);
    let m = Arc::get_mut(&mut l.source).unwrap();
    if with_token {
        m.harness_push_ascending(Some(n0), one_token_line(n0, 1));
        m.harness_push_ascending(Some(n1), one_token_line(n1, 2));
        m.harness_push_ascending(Some(n2), one_token_line(n2, 3));
    } else {
        m.harness_push_ascending(Some(n0), mk_line(Some(n0), Vec::new()));
        m.harness_push_ascending(Some(n1), mk_line(Some(n1), Vec::new()));
        m.harness_push_ascending(Some(n2), mk_line(Some(n2), Vec::new()));
    }
    [n0, n1, n2]
}
/// ascending and duplicate-free, as observed through the public iteration order
fn well_ordered(l: &Listing) -> bool {
    let mut prev: Option<u16> = None;
    let mut first = true;
    for line in l.lines() {
        let n = match line.number() {
            Some(n) => n,
            None => return false,
        };
        if !first {
            if let Some(p) = prev {
                if p >= n {
                    return false;
                }
            }
        }
        prev = Some(n);
        first = false;
    }
    true
}
pub(crate) fn stored(l: &Listing, n: u16) -> bool {
    l.source.get(&Some(n)).is_some()
}
fn count(l: &Listing) -> usize {
    l.source.len()
}

/// Stub for `<Line as Display>::fmt` in the LIST harness (formatting is not the subject of C15, and formatting a symbolically
/// selected line number through core::fmt did not finish in 15 minutes): writes the line number as two raw characters, which is
/// enough to identify the emitted line.
pub(crate) fn line_fmt_stub(line: &Line, f: &mut std::fmt::Formatter<'_>) -> std::fmt::Result {
    use std::fmt::Write;
    let n = line.number().unwrap_or(0);
    f.write_char((n >> 8) as u8 as char)?;
    f.write_char((n & 0xff) as u8 as char)
}
fn stub_text(n: u16) -> String {
    let mut s = String::new();
    s.push((n >> 8) as u8 as char);
    s.push((n & 0xff) as u8 as char);
    s
}

//@ prop: C15
//@ tier: quick
//@ unwind: 12
//@ encodes: Listing::list_line; BTreeMap model range()
//@ stubs: <Line as Display>::fmt replaced by a 2-character rendering of the line number (formatting is C05's subject)
//@ bounds: one LIST resumption step from an arbitrary range state a..=b (a <= b <= 65529) over 3 stored lines n0<n1<n2<=65529 (state built directly); induction over resumptions gives the whole listing
//@ harness: c15_list_step
#[cfg_attr(kani, kani::proof)]
#[cfg_attr(kani, kani::stub(std::mem::swap, crate::vk::typed_swap))]
#[cfg_attr(kani, kani::stub(<crate::lang::Line as std::fmt::Display>::fmt, line_fmt_stub))]
pub(crate) fn c15_list_step() {
    let mut l = Listing::default();
    let s = three_lines_with(&mut l, false);
    let (a, b) = (vk::any_u16(), vk::any_u16());
    vk::assume(a <= b && b <= MAXLN);
    let mut range = Some(a)..=Some(b);
    // the first stored line inside [a, b], if any
    let mut first: Option<u16> = None;
    let mut i = 3;
    while i > 0 {
        i -= 1;
        if s[i] >= a && s[i] <= b {
            first = Some(s[i]);
        }
    }
    let got = l.list_line(&mut range);
    match first {
        None => vk_check!(got.is_none(), "C15: LIST emitted a line although none is inside the range"),
        Some(n) => {
            match got {
                Some((text, _cols)) => {
                    #[cfg(kani)]
                    vk_check!(text == stub_text(n), "C15: LIST must emit the lowest not yet listed line inside the inclusive range");
                    #[cfg(not(kani))]
                    vk_check!(text.trim_end().parse::<u16>() == Ok(n), "C15: LIST must emit the lowest not yet listed line inside the inclusive range");
                }
                None => vk_check!(false, "C15: LIST stopped although a line inside the range is still to be listed"),
            }
            // what is left to list: exactly the stored lines above n and up to b
            let (ra, rb) = (*range.start(), *range.end());
            let mut j = 0;
            while j < 3 {
                let still = match (ra, rb) {
                    (Some(x), Some(y)) => s[j] >= x && s[j] <= y,
                    _ => false,
                };
                vk_check!(still == (s[j] > n && s[j] <= b), "C15: after emitting a line, LIST must resume with exactly the remaining lines of the range");
                j += 1;
            }
            match (ra, rb) {
                (Some(x), Some(y)) => vk_check!(x <= y, "C15: the resumed LIST range must stay well-formed"),
                _ => vk_check!(false, "C15: the resumed LIST range lost its bounds"),
            }
        }
    }
    vk_cover!(matches!(first, Some(n) if n == b), "reach: listed line is the range end");
    vk_cover!(matches!(first, Some(n) if n + 1 == b && s[2] == b), "reach: adjacent lines ending at the range end");
    vk_cover!(first.is_none(), "reach: empty listing range");
    core::mem::forget(l);
}

//@ prop: C15
//@ tier: quick
//@ unwind: 12
//@ encodes: Listing::remove_range; Listing::insert
//@ bounds: 3 stored lines with arbitrary numbers n0<n1<n2<=65529 (state built directly); DELETE range a..=b arbitrary with a <= b <= 65529
vk_harness!(c15_delete_removes_exactly_the_range, {
    let mut l = Listing::default();
    let s = three_lines(&mut l);
    let (a, b) = (vk::any_u16(), vk::any_u16());
    vk::assume(a <= b && b <= MAXLN);
    let changed = l.remove_range(Some(a)..=Some(b));
    let mut inside = 0;
    let mut i = 0;
    while i < 3 {
        let within = s[i] >= a && s[i] <= b;
        if within {
            inside += 1;
        }
        vk_check!(stored(&l, s[i]) == !within, "C15: DELETE a-b must remove exactly the lines inside the inclusive range");
        i += 1;
    }
    vk_check!(changed == (inside > 0), "C15: DELETE reports a change exactly when it removed a line");
    vk_check!(count(&l) == 3 - inside, "C15: DELETE must not create or drop other lines");
    vk_cover!(inside == 1, "reach: one line deleted");
    vk_cover!(inside == 0, "reach: nothing deleted");
    core::mem::forget(l);
});

//@ prop: C15
//@ tier: quick
//@ unwind: 12
//@ encodes: Listing::insert
//@ bounds: 2 stored lines with arbitrary numbers n0<n1<=65529 (state built directly); one further numbered line (any number, new or existing)
vk_harness!(c15_numbered_line_inserts_or_replaces, {
    let mut l = Listing::default();
    let s = two_token_lines(&mut l);
    let n = vk::any_u16();
    vk::assume(n <= MAXLN);
    let existed = n == s[0] || n == s[1];
    let old = l.insert(one_token_line(n, 9));
    vk_check!(old.is_some() == existed, "C15: a numbered line replaces the line with that number, or is new");
    vk_check!(count(&l) == if existed { 2 } else { 3 }, "C15: inserting changes nothing else");
    vk_check!(stored(&l, s[0]) && stored(&l, s[1]) && stored(&l, n), "C15: insert must keep every other line");
    vk_check!(well_ordered(&l), "C15: the store stays ordered by line number");
    match crate::lang::vh_line::tokens_of(l.source.get(&Some(n)).unwrap()).get(0) {
        Some(Token::Whitespace(9)) => {}
        _ => vk_check!(false, "C15: the stored line is the last text entered for its number"),
    }
    vk_cover!(existed, "reach: replace");
    vk_cover!(!existed, "reach: new line");
    core::mem::forget(l);
    core::mem::forget(old);
});

//@ prop: C15
//@ tier: quick
//@ unwind: 12
//@ encodes: Listing::remove
//@ bounds: 3 stored lines with arbitrary numbers n0<n1<n2<=65529 (state built directly); one bare line number (any number, stored or not)
vk_harness!(c15_bare_number_deletes_that_line_only, {
    let mut l = Listing::default();
    let s = three_lines(&mut l);
    let m = vk::any_u16();
    vk::assume(m <= MAXLN);
    let was = m == s[0] || m == s[1] || m == s[2];
    let removed = l.remove(Some(m));
    vk_check!(removed.is_some() == was, "C15: a bare number deletes that line and nothing else");
    vk_check!(!stored(&l, m) && count(&l) == 3 - if was { 1 } else { 0 }, "C15: deletion removes exactly one line, or none");
    let mut i = 0;
    while i < 3 {
        if s[i] != m {
            vk_check!(stored(&l, s[i]), "C15: deleting a line must keep every other line");
        }
        i += 1;
    }
    vk_check!(well_ordered(&l), "C15: the store stays ordered by line number");
    vk_cover!(was, "reach: delete present line");
    vk_cover!(!was, "reach: delete absent line");
    core::mem::forget(l);
    core::mem::forget(removed);
});

// ---------------------------------------------------------------------------------------------------------------
// C14: RENUM's numbering (the change map and the rebuilt store)

/// Numbers of the stored lines in listing order (ascending by construction of the store), padded with None.
fn numbers_in_order(l: &Listing) -> [Option<u16>; 4] {
    let mut out = [None; 4];
    let mut i = 0;
    for line in l.lines() {
        if i < 4 {
            out[i] = line.number();
        }
        i += 1;
    }
    out
}

//@ prop: C14
//@ tier: quick
//@ unwind: 12
//@ encodes: Listing::renum (change map, order / overflow checks, rebuilt store); Line::renum on lines without references
//@ bounds: 2 stored lines n0<n1<=65529 without tokens (state built directly); RENUM arguments: all u16 triples (new, old, step)
vk_harness!(c14_renum_numbering_2, {
    let mut l = Listing::default();
    let s = two_lines(&mut l);
    let (new_start, old_start, step) = (vk::any_u16(), vk::any_u16(), vk::any_u16());
    vk::assume(!vk_known!(C14_RENUM_STEP_ZERO, step == 0));
    let got = l.renum(new_start, old_start, step);
    let after = numbers_in_order(&l);
    vk_cover!(got.is_ok(), "reach: renum ok");
    vk_cover!(got.is_err(), "reach: renum refused");
    match got {
        Err(_) => {
            vk_check!(count(&l) == 2 && after[0] == Some(s[0]) && after[1] == Some(s[1]), "C14: a RENUM that fails must leave the program unchanged");
        }
        Ok(()) => {
            vk_check!(count(&l) == 2, "C14: RENUM must keep every line (two lines must never get the same number)");
            // expected numbers: lines below old-start keep theirs, the others become new, new+step, ...
            let mut k: u32 = 0;
            let mut i = 0;
            while i < 2 {
                let want = if s[i] < old_start {
                    s[i] as u32
                } else {
                    let w = new_start as u32 + k * step as u32;
                    k += 1;
                    w
                };
                vk_check!(want <= MAXLN as u32, "C14: RENUM must not produce a line number above 65529");
                vk_check!(after[i] == Some(want as u16), "C14: RENUM numbering: kept lines keep their numbers, the rest become new-start + i*step in the same order");
                i += 1;
            }
            vk_check!(after[0] < after[1], "C14: RENUM must keep the lines in the same order");
        }
    }
    core::mem::forget(l);
});


// ---------------------------------------------------------------------------------------------------------------
// C03: a listing snapshot handed to the UI must not make a later edit crash (copy-on-write)

//@ prop: C03 C15
//@ tier: quick
//@ unwind: 12
//@ encodes: Listing::clone (snapshot, as Runtime::get_listing hands out); Listing::insert; Listing::remove; Listing::remove_range
//@ bounds: listing with 2 lines n0<n1 (arbitrary numbers), one live snapshot; then one edit: insert (any number), bare-number delete (any number) or DELETE a-b (any range)
vk_harness!(c03_snapshot_does_not_block_edits, {
    let mut l = Listing::default();
    let s = two_token_lines(&mut l);
    let snapshot = l.clone(); // what the terminal keeps for line completion / SAVE
    let which = vk::any_below(3);
    let m = vk::any_u16();
    vk::assume(m <= MAXLN);
    match which {
        0 => {
            let _ = l.insert(one_token_line(m, 7));
            vk_check!(stored(&l, m), "C15: the entered line is stored");
        }
        1 => {
            let _ = l.remove(Some(m));
            vk_check!(!stored(&l, m), "C15: the bare number deletes the line");
        }
        _ => {
            let b = vk::any_u16();
            vk::assume(m <= b && b <= MAXLN);
            let _ = l.remove_range(Some(m)..=Some(b));
        }
    }
    // the snapshot is a snapshot: it still shows the program as it was
    vk_check!(count(&snapshot) == 2 && stored(&snapshot, s[0]) && stored(&snapshot, s[1]),
        "C03: an edit must not change (or be blocked by) a listing snapshot that is still alive");
    vk_cover!(which == 0, "reach: insert with live snapshot");
    vk_cover!(which == 2, "reach: delete range with live snapshot");
    core::mem::forget(l);
    core::mem::forget(snapshot);
});
