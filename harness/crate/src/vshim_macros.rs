// Crate-level shadows of `format!` and `vec!` for the vshim build (textually in scope for every module below).
#[macro_export]
macro_rules! format {
    ($($arg:tt)*) => { $crate::vshim::string::format(format_args!($($arg)*)) };
}
#[macro_export]
macro_rules! vec {
    () => { $crate::vshim::vec::Vec::new() };
    ($elem:expr; $n:expr) => {{
        let mut v = $crate::vshim::vec::Vec::new();
        let e = $elem;
        let n: usize = $n;
        let mut i: usize = 0;
        while i < n {
            v.push(e.clone());
            i += 1;
        }
        v
    }};
    ($($x:expr),+ $(,)?) => {{
        let mut v = $crate::vshim::vec::Vec::new();
        $( v.push($x); )+
        v
    }};
}
