// Crate-level shadows of `format!` and `vec!` for the vshim build (textually in scope for every module below).
#[macro_export]
macro_rules! format {
    ($($arg:tt)*) => { $crate::vshim::string::format(format_args!($($arg)*)) };
}
// `vec!` builds whichever of `Vec` / `BVec` the context asks for (see vshim::vec::VecLike).
#[macro_export]
macro_rules! vec {
    () => { ::core::default::Default::default() };
    ($elem:expr; $n:expr) => {{
        let mut v = ::core::default::Default::default();
        let e = $elem;
        let n: usize = $n;
        let mut i: usize = 0;
        while i < n {
            $crate::vshim::vec::VecLike::vpush(&mut v, e.clone());
            i += 1;
        }
        v
    }};
    ($($x:expr),+ $(,)?) => {{
        let mut v = ::core::default::Default::default();
        $( $crate::vshim::vec::VecLike::vpush(&mut v, $x); )+
        v
    }};
}
