//! vshim — bounded, array-backed models of the std containers used by basic-lang (`String`, `Vec`, `VecDeque`,
//! `HashMap`, `BTreeMap`, `Rc<str>`, `Arc<T>`), so that CBMC sees objects of constant size and loops whose trip count is
//! bounded by a capacity. Module paths mirror std (`vshim::collections`, `vshim::rc`, `vshim::sync`, `vshim::vec`) so that a
//! textual `std::collections` -> `crate::vshim::collections` rewrite of the copied sources is enough.
//!
//! Semantics are std's for every operation the repository uses, with one difference: exceeding a capacity is reported
//! through `capacity_exceeded()` — under Kani a dedicated `VSHIM-CAPACITY` assertion followed by `assume(false)` (the
//! runner treats it as *inconclusive*, never as a pass and never as a violation); natively a panic.
//! Iteration order of `HashMap` is insertion order (std's is unspecified): nothing order-dependent is claimed.
#![allow(dead_code, clippy::all)]

pub mod cap {
    //! Capacities. Under Kani they are deliberately tiny: the cost of a harness is dominated by copying the VM's state
    //! (measured: `Runtime::default()` alone is 563 k symex steps at VEC=8 and 188 k at VEC=4), and every capacity is part
    //! of the stated bound of every harness. Natively they are large enough for the repository's test-suite.
    #[cfg(kani)]
    pub const STR: usize = 8;
    #[cfg(kani)]
    pub const VEC: usize = 6;
    #[cfg(kani)]
    pub const MAP: usize = 4;
    #[cfg(kani)]
    pub const DEQ: usize = 8;
    #[cfg(kani)]
    pub const ARCSTR: usize = 32;
    #[cfg(not(kani))]
    pub const STR: usize = 272;
    #[cfg(not(kani))]
    pub const VEC: usize = 128;
    #[cfg(not(kani))]
    pub const MAP: usize = 128;
    #[cfg(not(kani))]
    pub const DEQ: usize = 1100;
    #[cfg(not(kani))]
    pub const ARCSTR: usize = 272;
}

#[cfg(kani)]
#[inline(never)]
pub fn capacity_exceeded() -> ! {
    kani::assert(false, "VSHIM-CAPACITY");
    kani::assume(false);
    unsafe { core::hint::unreachable_unchecked() }
}
#[cfg(not(kani))]
pub fn capacity_exceeded() -> ! {
    panic!("VSHIM-CAPACITY: a bounded container model overflowed");
}

// =================================================================================================================
pub mod string {
    use super::cap;
    use super::capacity_exceeded;
    use core::fmt;

    /// Bounded string: `N` bytes of UTF-8 inline.
    #[derive(Clone)]
    pub struct BStr<const N: usize> {
        len: usize,
        buf: [u8; N],
    }
    pub type String = BStr<{ cap::STR }>;

    impl<const N: usize> BStr<N> {
        pub const fn new() -> Self {
            BStr { len: 0, buf: [0u8; N] }
        }
        pub fn with_capacity(_n: usize) -> Self {
            Self::new()
        }
        #[inline]
        pub fn as_str(&self) -> &str {
            unsafe { core::str::from_utf8_unchecked(core::slice::from_raw_parts(self.buf.as_ptr(), self.len)) }
        }
        #[inline]
        pub fn len(&self) -> usize {
            self.len
        }
        #[inline]
        pub fn is_empty(&self) -> bool {
            self.len == 0
        }
        pub fn clear(&mut self) {
            self.len = 0;
        }
        pub fn push(&mut self, ch: char) {
            let mut tmp = [0u8; 4];
            let s = ch.encode_utf8(&mut tmp);
            self.push_str(s);
        }
        pub fn push_str(&mut self, s: &str) {
            let b = s.as_bytes();
            if self.len + b.len() > N {
                capacity_exceeded();
            }
            let mut i = 0;
            while i < b.len() {
                self.buf[self.len + i] = b[i];
                i += 1;
            }
            self.len += b.len();
        }
        pub fn pop(&mut self) -> Option<char> {
            let ch = self.as_str().chars().next_back()?;
            self.len -= ch.len_utf8();
            Some(ch)
        }
        pub fn insert(&mut self, idx: usize, ch: char) {
            let mut tmp = [0u8; 4];
            let s = ch.encode_utf8(&mut tmp);
            self.insert_str(idx, s);
        }
        pub fn insert_str(&mut self, idx: usize, s: &str) {
            assert!(self.as_str().is_char_boundary(idx));
            let b = s.as_bytes();
            let n = b.len();
            if self.len + n > N {
                capacity_exceeded();
            }
            // shift the tail right by n
            let mut i = self.len;
            while i > idx {
                i -= 1;
                self.buf[i + n] = self.buf[i];
            }
            let mut j = 0;
            while j < n {
                self.buf[idx + j] = b[j];
                j += 1;
            }
            self.len += n;
        }
        pub fn replace_range(&mut self, range: core::ops::Range<usize>, with: &str) {
            // std panics unless both ends are char boundaries and start <= end <= len
            assert!(range.start <= range.end);
            assert!(self.as_str().is_char_boundary(range.start));
            assert!(self.as_str().is_char_boundary(range.end));
            let mut out: BStr<N> = BStr::new();
            out.push_str(&self.as_str()[..range.start]);
            out.push_str(with);
            out.push_str(&self.as_str()[range.end..]);
            *self = out;
        }
        /// `str::replace(char, &str)` returning the bounded type (an inherent method shadows the `str` one).
        pub fn replace(&self, from: char, to: &str) -> BStr<N> {
            let mut out: BStr<N> = BStr::new();
            for ch in self.as_str().chars() {
                if ch == from {
                    out.push_str(to);
                } else {
                    out.push(ch);
                }
            }
            out
        }
        pub fn from_str_slice(s: &str) -> Self {
            let mut out = Self::new();
            out.push_str(s);
            out
        }
    }

    impl<const N: usize> Default for BStr<N> {
        fn default() -> Self {
            Self::new()
        }
    }
    impl<const N: usize> core::ops::Deref for BStr<N> {
        type Target = str;
        #[inline]
        fn deref(&self) -> &str {
            self.as_str()
        }
    }
    impl<const N: usize> AsRef<str> for BStr<N> {
        fn as_ref(&self) -> &str {
            self.as_str()
        }
    }
    impl<const N: usize> core::borrow::Borrow<str> for BStr<N> {
        fn borrow(&self) -> &str {
            self.as_str()
        }
    }
    impl<const N: usize> From<&str> for BStr<N> {
        fn from(s: &str) -> Self {
            Self::from_str_slice(s)
        }
    }
    impl<const N: usize> From<&BStr<N>> for BStr<N> {
        fn from(s: &BStr<N>) -> Self {
            s.clone()
        }
    }
    impl<const N: usize> From<char> for BStr<N> {
        fn from(c: char) -> Self {
            let mut s = Self::new();
            s.push(c);
            s
        }
    }
    impl<const N: usize> From<std::string::String> for BStr<N> {
        fn from(s: std::string::String) -> Self {
            Self::from_str_slice(&s)
        }
    }
    /// Byte-wise equality with a constant trip count (slice `==` would be a memcmp over a symbolic length).
    pub fn bytes_eq<const N: usize>(a: &BStr<N>, b: &str) -> bool {
        let bb = b.as_bytes();
        if a.len != bb.len() {
            return false;
        }
        let mut i = 0;
        while i < N {
            if i < a.len && a.buf[i] != bb[i] {
                return false;
            }
            i += 1;
        }
        true
    }
    impl<const N: usize, const M: usize> PartialEq<BStr<M>> for BStr<N> {
        fn eq(&self, other: &BStr<M>) -> bool {
            bytes_eq(self, other.as_str())
        }
    }
    impl<const N: usize> Eq for BStr<N> {}
    impl<const N: usize> PartialEq<str> for BStr<N> {
        fn eq(&self, other: &str) -> bool {
            bytes_eq(self, other)
        }
    }
    impl<const N: usize> PartialEq<&str> for BStr<N> {
        fn eq(&self, other: &&str) -> bool {
            bytes_eq(self, other)
        }
    }
    impl<const N: usize> PartialEq<BStr<N>> for str {
        fn eq(&self, other: &BStr<N>) -> bool {
            bytes_eq(other, self)
        }
    }
    impl<const N: usize> PartialEq<BStr<N>> for &str {
        fn eq(&self, other: &BStr<N>) -> bool {
            bytes_eq(other, self)
        }
    }
    /// Lexicographic byte order (= `str` order) with a constant trip count.
    pub fn bytes_cmp(a: &str, b: &str, n: usize) -> core::cmp::Ordering {
        let (ab, bb) = (a.as_bytes(), b.as_bytes());
        let mut i = 0;
        while i < n {
            if i >= ab.len() || i >= bb.len() {
                break;
            }
            if ab[i] != bb[i] {
                return ab[i].cmp(&bb[i]);
            }
            i += 1;
        }
        ab.len().cmp(&bb.len())
    }
    impl<const N: usize> PartialOrd for BStr<N> {
        fn partial_cmp(&self, other: &Self) -> Option<core::cmp::Ordering> {
            Some(bytes_cmp(self.as_str(), other.as_str(), N))
        }
    }
    impl<const N: usize> Ord for BStr<N> {
        fn cmp(&self, other: &Self) -> core::cmp::Ordering {
            bytes_cmp(self.as_str(), other.as_str(), N)
        }
    }
    impl<const N: usize> core::hash::Hash for BStr<N> {
        fn hash<H: core::hash::Hasher>(&self, state: &mut H) {
            self.as_str().hash(state)
        }
    }
    impl<const N: usize> fmt::Debug for BStr<N> {
        fn fmt(&self, f: &mut fmt::Formatter<'_>) -> fmt::Result {
            fmt::Debug::fmt(self.as_str(), f)
        }
    }
    impl<const N: usize> fmt::Display for BStr<N> {
        fn fmt(&self, f: &mut fmt::Formatter<'_>) -> fmt::Result {
            fmt::Display::fmt(self.as_str(), f)
        }
    }
    impl<const N: usize> fmt::Write for BStr<N> {
        fn write_str(&mut self, s: &str) -> fmt::Result {
            self.push_str(s);
            Ok(())
        }
    }
    impl<const N: usize> core::iter::FromIterator<char> for BStr<N> {
        fn from_iter<I: IntoIterator<Item = char>>(iter: I) -> Self {
            let mut s = Self::new();
            for ch in iter {
                s.push(ch);
            }
            s
        }
    }
    impl<const N: usize, const M: usize> core::iter::FromIterator<BStr<M>> for BStr<N> {
        fn from_iter<I: IntoIterator<Item = BStr<M>>>(iter: I) -> Self {
            let mut s = Self::new();
            for part in iter {
                s.push_str(part.as_str());
            }
            s
        }
    }
    impl<'a, const N: usize> core::iter::FromIterator<&'a str> for BStr<N> {
        fn from_iter<I: IntoIterator<Item = &'a str>>(iter: I) -> Self {
            let mut s = Self::new();
            for part in iter {
                s.push_str(part);
            }
            s
        }
    }
    impl<const N: usize> core::ops::Add<&str> for BStr<N> {
        type Output = BStr<N>;
        fn add(mut self, rhs: &str) -> BStr<N> {
            self.push_str(rhs);
            self
        }
    }

    /// `x.to_string()` is rewritten to `x.vto_string()`: formats through the real `Display` impl into the bounded string.
    pub trait VToString {
        fn vto_string(&self) -> String;
    }
    impl<T: fmt::Display + ?Sized> VToString for T {
        fn vto_string(&self) -> String {
            let mut s = String::new();
            let _ = fmt::write(&mut s, format_args!("{}", self));
            s
        }
    }
    pub fn format(args: fmt::Arguments<'_>) -> String {
        let mut s = String::new();
        let _ = fmt::write(&mut s, args);
        s
    }

    /// Ghost variable: the length most recently requested from a `repeat` model (TAB / SPC / STRING$ column arithmetic
    /// is checked on the requested length, the produced string is capped at the capacity under Kani).
    pub static mut LAST_REPEAT_REQUEST: usize = 0;
    pub fn last_repeat_request() -> usize {
        unsafe { LAST_REPEAT_REQUEST }
    }
    fn repeat_into(unit: &str, n: usize) -> String {
        unsafe {
            LAST_REPEAT_REQUEST = n;
        }
        let mut s = String::new();
        let mut i = 0;
        #[cfg(kani)]
        let limit = if unit.len() == 0 { 0 } else { cap::STR / unit.len() };
        #[cfg(not(kani))]
        let limit = usize::MAX;
        while i < n && i < limit {
            s.push_str(unit);
            i += 1;
        }
        s
    }
    /// `" ".repeat(n)`
    pub fn repeat_blank(n: usize) -> String {
        repeat_into(" ", n)
    }

    /// Bounded replacements for `str` routines whose std implementation CBMC cannot digest.
    pub trait VStr {
        /// `str::find(&str)`: naive search instead of std's two-way searcher.
        fn vfind(&self, pat: &str) -> Option<usize>;
        /// `str::repeat`
        fn vrepeat(&self, n: usize) -> String;
    }
    impl VStr for str {
        fn vfind(&self, pat: &str) -> Option<usize> {
            let (h, p) = (self.as_bytes(), pat.as_bytes());
            if p.len() > h.len() {
                return None;
            }
            let mut i = 0;
            while i + p.len() <= h.len() {
                let mut j = 0;
                let mut ok = true;
                while j < p.len() {
                    if h[i + j] != p[j] {
                        ok = false;
                        break;
                    }
                    j += 1;
                }
                if ok {
                    return Some(i);
                }
                i += 1;
            }
            None
        }
        fn vrepeat(&self, n: usize) -> String {
            repeat_into(self, n)
        }
    }
}

// =================================================================================================================
pub mod vec {
    use super::cap::VEC;
    use super::capacity_exceeded;
    use core::mem::{ManuallyDrop, MaybeUninit};

    /// Element storage. Under Kani a TYPED array `[T; VEC]` (unused slots hold never-read garbage, the array is never dropped
    /// as a whole): measured on an Opcode-sized element, reading an enum back through `MaybeUninit` (a union) makes CBMC lose the
    /// discriminant (273 of 1035 VCCs left vs 6 of 89), which turns every VM dispatch into a walk over all opcodes.
    /// Natively the same API over `[MaybeUninit<T>; VEC]` (no uninitialised typed values outside the model checker).
    #[cfg(kani)]
    struct Store<T, const N: usize>(ManuallyDrop<[T; N]>);
    #[cfg(kani)]
    impl<T, const N: usize> Store<T, N> {
        const fn new() -> Self {
            Store(unsafe { MaybeUninit::uninit().assume_init() })
        }
        #[inline]
        unsafe fn write(&mut self, i: usize, v: T) {
            core::ptr::write(&mut self.0[i], v)
        }
        #[inline]
        unsafe fn read(&self, i: usize) -> T {
            core::ptr::read(&self.0[i])
        }
        #[inline]
        unsafe fn get(&self, i: usize) -> &T {
            &self.0[i]
        }
        #[inline]
        unsafe fn get_mut(&mut self, i: usize) -> &mut T {
            &mut self.0[i]
        }
        #[inline]
        unsafe fn slice(&self, len: usize) -> &[T] {
            &self.0[..len]
        }
        #[inline]
        unsafe fn slice_mut(&mut self, len: usize) -> &mut [T] {
            &mut self.0[..len]
        }
    }
    #[cfg(not(kani))]
    struct Store<T, const N: usize>([MaybeUninit<T>; N]);
    #[cfg(not(kani))]
    impl<T, const N: usize> Store<T, N> {
        const fn new() -> Self {
            Store([const { MaybeUninit::uninit() }; N])
        }
        #[inline]
        unsafe fn write(&mut self, i: usize, v: T) {
            self.0[i] = MaybeUninit::new(v);
        }
        #[inline]
        unsafe fn read(&self, i: usize) -> T {
            self.0[i].assume_init_read()
        }
        #[inline]
        unsafe fn get(&self, i: usize) -> &T {
            self.0[i].assume_init_ref()
        }
        #[inline]
        unsafe fn get_mut(&mut self, i: usize) -> &mut T {
            self.0[i].assume_init_mut()
        }
        #[inline]
        unsafe fn slice(&self, len: usize) -> &[T] {
            core::slice::from_raw_parts(self.0.as_ptr() as *const T, len)
        }
        #[inline]
        unsafe fn slice_mut(&mut self, len: usize) -> &mut [T] {
            core::slice::from_raw_parts_mut(self.0.as_mut_ptr() as *mut T, len)
        }
    }

    /// Bounded vector: at most `VEC` elements in an INLINE array. (Measured: CBMC treats heap objects byte-wise and then
    /// cannot resolve enum discriminants read back from them — a one-instruction VM step took 242 s with boxed storage;
    /// inline typed storage keeps constant propagation intact.) The two recursive AST positions use `BVec` instead.
    pub struct Vec<T, const N: usize = VEC> {
        len: usize,
        buf: Store<T, N>,
    }

    impl<T, const N: usize> Vec<T, N> {
        pub const fn new() -> Self {
            Vec { len: 0, buf: Store::new() }
        }
        pub fn with_capacity(_n: usize) -> Self {
            Self::new()
        }
        #[inline]
        pub fn len(&self) -> usize {
            self.len
        }
        #[inline]
        pub fn is_empty(&self) -> bool {
            self.len == 0
        }
        #[inline]
        pub fn as_slice(&self) -> &[T] {
            unsafe { self.buf.slice(self.len) }
        }
        #[inline]
        pub fn as_mut_slice(&mut self) -> &mut [T] {
            let len = self.len;
            unsafe { self.buf.slice_mut(len) }
        }
        // typed element access (inherent methods shadow the slice ones reached through Deref)
        #[inline]
        pub fn get(&self, i: usize) -> Option<&T> {
            if i < self.len {
                Some(unsafe { self.buf.get(i) })
            } else {
                None
            }
        }
        #[inline]
        pub fn get_mut(&mut self, i: usize) -> Option<&mut T> {
            if i < self.len {
                Some(unsafe { self.buf.get_mut(i) })
            } else {
                None
            }
        }
        #[inline]
        pub fn last(&self) -> Option<&T> {
            if self.len == 0 {
                None
            } else {
                Some(unsafe { self.buf.get(self.len - 1) })
            }
        }
        #[inline]
        pub fn first(&self) -> Option<&T> {
            self.get(0)
        }
        pub fn push(&mut self, v: T) {
            if self.len >= N {
                capacity_exceeded();
            }
            let len = self.len;
            unsafe { self.buf.write(len, v) };
            self.len += 1;
        }
        pub fn pop(&mut self) -> Option<T> {
            if self.len == 0 {
                return None;
            }
            self.len -= 1;
            let len = self.len;
            Some(unsafe { self.buf.read(len) })
        }
        pub fn clear(&mut self) {
            if core::mem::needs_drop::<T>() {
                while let Some(v) = self.pop() {
                    drop(v);
                }
            }
            self.len = 0;
        }
        pub fn truncate(&mut self, n: usize) {
            while self.len > n {
                drop(self.pop());
            }
        }
        pub fn insert(&mut self, idx: usize, v: T) {
            assert!(idx <= self.len);
            if self.len >= N {
                capacity_exceeded();
            }
            let mut i = self.len;
            while i > idx {
                unsafe { let t = self.buf.read(i - 1); self.buf.write(i, t) };
                i -= 1;
            }
            unsafe { self.buf.write(idx, v) };
            self.len += 1;
        }
        pub fn remove(&mut self, idx: usize) -> T {
            assert!(idx < self.len);
            let len = self.len;
            let out = unsafe { self.buf.read(idx) };
            let mut i = idx;
            while i + 1 < len {
                unsafe { let t = self.buf.read(i + 1); self.buf.write(i, t) };
                i += 1;
            }
            self.len -= 1;
            out
        }
        pub fn append(&mut self, other: &mut Vec<T, N>) {
            let n = other.len;
            let mut i = 0;
            while i < n {
                let v = unsafe { other.buf.read(i) };
                self.push(v);
                i += 1;
            }
            other.len = 0;
        }
        fn bounds<R: core::ops::RangeBounds<usize>>(&self, range: R) -> (usize, usize) {
            use core::ops::Bound::*;
            let start = match range.start_bound() {
                Included(&s) => s,
                Excluded(&s) => s + 1,
                Unbounded => 0,
            };
            let end = match range.end_bound() {
                Included(&e) => e + 1,
                Excluded(&e) => e,
                Unbounded => self.len,
            };
            assert!(start <= end && end <= self.len);
            (start, end)
        }
        /// Eager drain: the drained elements are moved out immediately, the tail is shifted down.
        pub fn drain<R: core::ops::RangeBounds<usize>>(&mut self, range: R) -> Drain<'_, T, N> {
            let (start, end) = self.bounds(range);
            let mut out: Vec<T, N> = Vec::new();
            let len = self.len;
            if end > start {
                let mut i = start;
                while i < end {
                    out.push(unsafe { self.buf.read(i) });
                    i += 1;
                }
                let n = end - start;
                let mut j = end;
                while j < len {
                    unsafe { let t = self.buf.read(j); self.buf.write(j - n, t) };
                    j += 1;
                }
                self.len = len - n;
            }
            Drain { items: out, front: 0, _p: core::marker::PhantomData }
        }
        /// Eager splice (std's is lazy and applied on drop of the returned iterator; the repository drops it at once).
        pub fn splice<R: core::ops::RangeBounds<usize>, I: IntoIterator<Item = T>>(&mut self, range: R, with: I) {
            let (start, end) = self.bounds(range);
            drop(self.drain(start..end));
            let mut at = start;
            for v in with {
                self.insert(at, v);
                at += 1;
            }
        }
        pub fn retain<F: FnMut(&T) -> bool>(&mut self, mut f: F) {
            let mut i = 0;
            while i < self.len {
                if f(&self.as_slice()[i]) {
                    i += 1;
                } else {
                    drop(self.remove(i));
                }
            }
        }
        pub fn reverse_in_place(&mut self) {
            self.as_mut_slice().reverse()
        }
    }

    impl<T, const N: usize> Drop for Vec<T, N> {
        fn drop(&mut self) {
            if core::mem::needs_drop::<T>() {
                while let Some(v) = self.pop() {
                    drop(v);
                }
            }
        }
    }
    impl<T, const N: usize> Default for Vec<T, N> {
        fn default() -> Self {
            Vec::new()
        }
    }
    impl<T, const N: usize> core::ops::Deref for Vec<T, N> {
        type Target = [T];
        #[inline]
        fn deref(&self) -> &[T] {
            self.as_slice()
        }
    }
    impl<T, const N: usize> core::ops::DerefMut for Vec<T, N> {
        #[inline]
        fn deref_mut(&mut self) -> &mut [T] {
            self.as_mut_slice()
        }
    }
    impl<T: Clone, const N: usize> Clone for Vec<T, N> {
        fn clone(&self) -> Self {
            let mut out = Vec::new();
            let mut i = 0;
            while i < self.len {
                out.push(unsafe { self.buf.get(i) }.clone());
                i += 1;
            }
            out
        }
    }
    impl<T: PartialEq, const N: usize> PartialEq for Vec<T, N> {
        fn eq(&self, other: &Self) -> bool {
            if self.len != other.len {
                return false;
            }
            let mut i = 0;
            while i < self.len {
                if unsafe { self.buf.get(i) } != unsafe { other.buf.get(i) } {
                    return false;
                }
                i += 1;
            }
            true
        }
    }
    impl<T: Eq, const N: usize> Eq for Vec<T, N> {}
    impl<T: core::fmt::Debug, const N: usize> core::fmt::Debug for Vec<T, N> {
        fn fmt(&self, f: &mut core::fmt::Formatter<'_>) -> core::fmt::Result {
            f.debug_list().entries(self.as_slice().iter()).finish()
        }
    }
    impl<T, const N: usize> core::iter::FromIterator<T> for Vec<T, N> {
        fn from_iter<I: IntoIterator<Item = T>>(iter: I) -> Self {
            let mut v = Vec::new();
            for x in iter {
                v.push(x);
            }
            v
        }
    }
    impl<T, const N: usize> Extend<T> for Vec<T, N> {
        fn extend<I: IntoIterator<Item = T>>(&mut self, iter: I) {
            for x in iter {
                self.push(x);
            }
        }
    }
    impl<'a, T, const N: usize> IntoIterator for &'a Vec<T, N> {
        type Item = &'a T;
        type IntoIter = core::slice::Iter<'a, T>;
        fn into_iter(self) -> Self::IntoIter {
            self.as_slice().iter()
        }
    }
    impl<'a, T, const N: usize> IntoIterator for &'a mut Vec<T, N> {
        type Item = &'a mut T;
        type IntoIter = core::slice::IterMut<'a, T>;
        fn into_iter(self) -> Self::IntoIter {
            self.as_mut_slice().iter_mut()
        }
    }
    impl<T, const N: usize> IntoIterator for Vec<T, N> {
        type Item = T;
        type IntoIter = Drain<'static, T, N>;
        fn into_iter(self) -> Self::IntoIter {
            Drain { items: self, front: 0, _p: core::marker::PhantomData }
        }
    }

    /// Owning iterator over moved-out elements (`drain`, `into_iter`).
    pub struct Drain<'a, T, const N: usize = VEC> {
        items: Vec<T, N>,
        front: usize,
        _p: core::marker::PhantomData<&'a ()>,
    }
    pub type IntoIter<T, const N: usize = VEC> = Drain<'static, T, N>;
    impl<'a, T, const N: usize> Iterator for Drain<'a, T, N> {
        type Item = T;
        fn next(&mut self) -> Option<T> {
            if self.front >= self.items.len {
                return None;
            }
            let i = self.front;
            self.front += 1;
            Some(unsafe { self.items.buf.read(i) })
        }
        fn size_hint(&self) -> (usize, Option<usize>) {
            let n = self.items.len - self.front;
            (n, Some(n))
        }
    }
    impl<'a, T, const N: usize> DoubleEndedIterator for Drain<'a, T, N> {
        fn next_back(&mut self) -> Option<T> {
            if self.front >= self.items.len {
                return None;
            }
            self.items.len -= 1;
            let i = self.items.len;
            Some(unsafe { self.items.buf.read(i) })
        }
    }
    impl<'a, T, const N: usize> ExactSizeIterator for Drain<'a, T, N> {}
    impl<'a, T, const N: usize> Drop for Drain<'a, T, N> {
        fn drop(&mut self) {
            if core::mem::needs_drop::<T>() {
                while let Some(v) = self.next() {
                    drop(v);
                }
            }
            // everything up to `front` has been moved out; make the inner Vec forget it
            self.items.len = 0;
        }
    }

    /// Heap-indirect bounded vector for the recursive AST positions (`Vec<Statement>`, `Vec<Expression>`, `Vec<Variable>` are
    /// rewritten to `BVec<..>` in the copied sources): same API through Deref to `Vec<T>`.
    pub struct BVec<T>(Box<Vec<T>>);
    impl<T> BVec<T> {
        pub fn new() -> Self {
            BVec(Box::new(Vec::new()))
        }
        pub fn with_capacity(_n: usize) -> Self {
            Self::new()
        }
    }
    impl<T> Default for BVec<T> {
        fn default() -> Self {
            BVec::new()
        }
    }
    impl<T> core::ops::Deref for BVec<T> {
        type Target = Vec<T>;
        fn deref(&self) -> &Vec<T> {
            &self.0
        }
    }
    impl<T> core::ops::DerefMut for BVec<T> {
        fn deref_mut(&mut self) -> &mut Vec<T> {
            &mut self.0
        }
    }
    impl<T: Clone> Clone for BVec<T> {
        fn clone(&self) -> Self {
            BVec(Box::new((*self.0).clone()))
        }
    }
    impl<T: PartialEq> PartialEq for BVec<T> {
        fn eq(&self, other: &Self) -> bool {
            *self.0 == *other.0
        }
    }
    impl<T: core::fmt::Debug> core::fmt::Debug for BVec<T> {
        fn fmt(&self, f: &mut core::fmt::Formatter<'_>) -> core::fmt::Result {
            core::fmt::Debug::fmt(&*self.0, f)
        }
    }
    impl<T> core::iter::FromIterator<T> for BVec<T> {
        fn from_iter<I: IntoIterator<Item = T>>(iter: I) -> Self {
            let mut v = BVec::new();
            for x in iter {
                v.push(x);
            }
            v
        }
    }
    impl<'a, T> IntoIterator for &'a BVec<T> {
        type Item = &'a T;
        type IntoIter = core::slice::Iter<'a, T>;
        fn into_iter(self) -> Self::IntoIter {
            self.0.as_slice().iter()
        }
    }
    impl<T> IntoIterator for BVec<T> {
        type Item = T;
        type IntoIter = Drain<'static, T>;
        fn into_iter(self) -> Self::IntoIter {
            (*self.0).into_iter()
        }
    }

    /// What the crate-level `vec!` macro builds: the target type (`Vec` or `BVec`) is inferred from the context.
    pub trait VecLike<T>: Default {
        fn vpush(&mut self, v: T);
    }
    impl<T> VecLike<T> for Vec<T> {
        fn vpush(&mut self, v: T) {
            self.push(v)
        }
    }
    impl<T> VecLike<T> for BVec<T> {
        fn vpush(&mut self, v: T) {
            self.push(v)
        }
    }
}

// =================================================================================================================
pub mod collections {
    use super::cap::{DEQ, MAP};
    use super::vec::Vec;
    use core::borrow::Borrow;

    /// Deque with the front at the END of a bounded Vec (pop_front = pop).
    pub struct VecDeque<T> {
        v: Vec<T, DEQ>,
    }
    impl<T> VecDeque<T> {
        pub fn new() -> Self {
            VecDeque { v: Vec::new() }
        }
        pub fn with_capacity(_n: usize) -> Self {
            Self::new()
        }
        pub fn len(&self) -> usize {
            self.v.len()
        }
        pub fn is_empty(&self) -> bool {
            self.v.is_empty()
        }
        pub fn front(&self) -> Option<&T> {
            self.v.as_slice().last()
        }
        pub fn back(&self) -> Option<&T> {
            self.v.as_slice().first()
        }
        pub fn pop_front(&mut self) -> Option<T> {
            self.v.pop()
        }
        pub fn push_front(&mut self, x: T) {
            self.v.push(x)
        }
        pub fn push_back(&mut self, x: T) {
            self.v.insert(0, x)
        }
        pub fn pop_back(&mut self) -> Option<T> {
            if self.v.is_empty() {
                None
            } else {
                Some(self.v.remove(0))
            }
        }
        pub fn clear(&mut self) {
            self.v.clear()
        }
        /// Only the full range is used by the repository (`drain(..)`): front-to-back order.
        pub fn drain<R: core::ops::RangeBounds<usize>>(&mut self, range: R) -> core::iter::Rev<super::vec::Drain<'_, T, DEQ>> {
            assert!(matches!(range.start_bound(), core::ops::Bound::Unbounded));
            assert!(matches!(range.end_bound(), core::ops::Bound::Unbounded));
            self.v.drain(..).rev()
        }
        pub fn iter(&self) -> core::iter::Rev<core::slice::Iter<'_, T>> {
            self.v.as_slice().iter().rev()
        }
    }
    impl<T> Default for VecDeque<T> {
        fn default() -> Self {
            Self::new()
        }
    }
    impl<T> core::iter::FromIterator<T> for VecDeque<T> {
        fn from_iter<I: IntoIterator<Item = T>>(iter: I) -> Self {
            let mut v: Vec<T, DEQ> = Vec::new();
            for x in iter {
                v.push(x);
            }
            v.reverse_in_place();
            VecDeque { v }
        }
    }
    impl<T: core::fmt::Debug> core::fmt::Debug for VecDeque<T> {
        fn fmt(&self, f: &mut core::fmt::Formatter<'_>) -> core::fmt::Result {
            f.debug_list().entries(self.iter()).finish()
        }
    }

    // ---------------------------------------------------------------------------------------------------------
    /// Insertion-ordered association list standing in for `HashMap` (keys compared with `==`).
    pub struct HashMap<K, V> {
        v: Vec<(K, V), MAP>,
    }
    pub mod hash_map {
        pub use super::HashMap;
    }
    impl<K: PartialEq, V> HashMap<K, V> {
        pub fn new() -> Self {
            HashMap { v: Vec::new() }
        }
        pub fn len(&self) -> usize {
            self.v.len()
        }
        pub fn is_empty(&self) -> bool {
            self.v.is_empty()
        }
        pub fn clear(&mut self) {
            self.v.clear()
        }
        fn position<Q: ?Sized + PartialEq>(&self, k: &Q) -> Option<usize>
        where
            K: Borrow<Q>,
        {
            let s = self.v.as_slice();
            let mut i = 0;
            while i < s.len() {
                if s[i].0.borrow() == k {
                    return Some(i);
                }
                i += 1;
            }
            None
        }
        pub fn get<Q: ?Sized + PartialEq>(&self, k: &Q) -> Option<&V>
        where
            K: Borrow<Q>,
        {
            match self.position(k) {
                Some(i) => Some(&self.v.as_slice()[i].1),
                None => None,
            }
        }
        pub fn get_mut<Q: ?Sized + PartialEq>(&mut self, k: &Q) -> Option<&mut V>
        where
            K: Borrow<Q>,
        {
            match self.position(k) {
                Some(i) => Some(&mut self.v.as_mut_slice()[i].1),
                None => None,
            }
        }
        pub fn contains_key<Q: ?Sized + PartialEq>(&self, k: &Q) -> bool
        where
            K: Borrow<Q>,
        {
            self.position(k).is_some()
        }
        pub fn insert(&mut self, k: K, v: V) -> Option<V> {
            match self.position(&k) {
                Some(i) => Some(core::mem::replace(&mut self.v.as_mut_slice()[i].1, v)),
                None => {
                    self.v.push((k, v));
                    None
                }
            }
        }
        pub fn remove<Q: ?Sized + PartialEq>(&mut self, k: &Q) -> Option<V>
        where
            K: Borrow<Q>,
        {
            match self.position(k) {
                Some(i) => Some(self.v.remove(i).1),
                None => None,
            }
        }
        pub fn retain<F: FnMut(&K, &mut V) -> bool>(&mut self, mut f: F) {
            let mut i = 0;
            while i < self.v.len() {
                let keep = {
                    let e = &mut self.v.as_mut_slice()[i];
                    f(&e.0, &mut e.1)
                };
                if keep {
                    i += 1;
                } else {
                    drop(self.v.remove(i));
                }
            }
        }
        pub fn entry(&mut self, k: K) -> Entry<'_, K, V> {
            Entry { map: self, key: k }
        }
        pub fn iter(&self) -> Iter<'_, K, V> {
            Iter { it: self.v.as_slice().iter() }
        }
        pub fn keys(&self) -> impl Iterator<Item = &K> {
            self.v.as_slice().iter().map(|e| &e.0)
        }
        pub fn values(&self) -> impl Iterator<Item = &V> {
            self.v.as_slice().iter().map(|e| &e.1)
        }
    }
    pub struct Entry<'a, K, V> {
        map: &'a mut HashMap<K, V>,
        key: K,
    }
    impl<'a, K: PartialEq, V> Entry<'a, K, V> {
        pub fn or_insert_with<F: FnOnce() -> V>(self, f: F) -> &'a mut V {
            let idx = match self.map.position(&self.key) {
                Some(i) => i,
                None => {
                    self.map.v.push((self.key, f()));
                    self.map.v.len() - 1
                }
            };
            &mut self.map.v.as_mut_slice()[idx].1
        }
        pub fn or_insert(self, v: V) -> &'a mut V {
            self.or_insert_with(|| v)
        }
    }
    pub struct Iter<'a, K, V> {
        it: core::slice::Iter<'a, (K, V)>,
    }
    impl<'a, K, V> Iterator for Iter<'a, K, V> {
        type Item = (&'a K, &'a V);
        fn next(&mut self) -> Option<Self::Item> {
            self.it.next().map(|e| (&e.0, &e.1))
        }
    }
    impl<'a, K, V> DoubleEndedIterator for Iter<'a, K, V> {
        fn next_back(&mut self) -> Option<Self::Item> {
            self.it.next_back().map(|e| (&e.0, &e.1))
        }
    }
    impl<K, V> Default for HashMap<K, V> {
        fn default() -> Self {
            HashMap { v: Vec::new() }
        }
    }
    impl<K: Clone, V: Clone> Clone for HashMap<K, V> {
        fn clone(&self) -> Self {
            HashMap { v: self.v.clone() }
        }
    }
    impl<K: core::fmt::Debug, V: core::fmt::Debug> core::fmt::Debug for HashMap<K, V> {
        fn fmt(&self, f: &mut core::fmt::Formatter<'_>) -> core::fmt::Result {
            f.debug_map().entries(self.v.as_slice().iter().map(|e| (&e.0, &e.1))).finish()
        }
    }
    impl<K, V> IntoIterator for HashMap<K, V> {
        type Item = (K, V);
        type IntoIter = super::vec::IntoIter<(K, V), MAP>;
        fn into_iter(self) -> Self::IntoIter {
            self.v.into_iter()
        }
    }
    impl<'a, K, V> IntoIterator for &'a HashMap<K, V> {
        type Item = (&'a K, &'a V);
        type IntoIter = Iter<'a, K, V>;
        fn into_iter(self) -> Self::IntoIter {
            Iter { it: self.v.as_slice().iter() }
        }
    }

    // ---------------------------------------------------------------------------------------------------------
    /// Sorted association list standing in for `BTreeMap`.
    pub struct BTreeMap<K, V> {
        v: Vec<(K, V), MAP>,
    }
    pub mod btree_map {
        pub use super::BTreeMap;
        /// `BTreeMap::values()`
        pub struct Values<'a, K, V> {
            pub(super) it: core::slice::Iter<'a, (K, V)>,
        }
        impl<'a, K, V> Iterator for Values<'a, K, V> {
            type Item = &'a V;
            fn next(&mut self) -> Option<&'a V> {
                self.it.next().map(|e| &e.1)
            }
        }
        impl<'a, K, V> DoubleEndedIterator for Values<'a, K, V> {
            fn next_back(&mut self) -> Option<&'a V> {
                self.it.next_back().map(|e| &e.1)
            }
        }
    }
    impl<K: Ord, V> BTreeMap<K, V> {
        pub fn new() -> Self {
            BTreeMap { v: Vec::new() }
        }
        pub fn len(&self) -> usize {
            self.v.len()
        }
        pub fn is_empty(&self) -> bool {
            self.v.is_empty()
        }
        pub fn clear(&mut self) {
            self.v.clear()
        }
        /// index of the first entry with key >= k
        fn lower<Q: ?Sized + Ord>(&self, k: &Q) -> usize
        where
            K: Borrow<Q>,
        {
            let s = self.v.as_slice();
            let mut i = 0;
            while i < s.len() {
                if s[i].0.borrow() >= k {
                    break;
                }
                i += 1;
            }
            i
        }
        fn find<Q: ?Sized + Ord>(&self, k: &Q) -> Option<usize>
        where
            K: Borrow<Q>,
        {
            let i = self.lower(k);
            let s = self.v.as_slice();
            if i < s.len() && s[i].0.borrow() == k {
                Some(i)
            } else {
                None
            }
        }
        pub fn get<Q: ?Sized + Ord>(&self, k: &Q) -> Option<&V>
        where
            K: Borrow<Q>,
        {
            match self.find(k) {
                Some(i) => Some(&self.v.as_slice()[i].1),
                None => None,
            }
        }
        pub fn get_mut<Q: ?Sized + Ord>(&mut self, k: &Q) -> Option<&mut V>
        where
            K: Borrow<Q>,
        {
            match self.find(k) {
                Some(i) => Some(&mut self.v.as_mut_slice()[i].1),
                None => None,
            }
        }
        pub fn contains_key<Q: ?Sized + Ord>(&self, k: &Q) -> bool
        where
            K: Borrow<Q>,
        {
            self.find(k).is_some()
        }
        pub fn insert(&mut self, k: K, v: V) -> Option<V> {
            let i = self.lower(&k);
            if i < self.v.len() && self.v.as_slice()[i].0 == k {
                Some(core::mem::replace(&mut self.v.as_mut_slice()[i].1, v))
            } else {
                self.v.insert(i, (k, v));
                None
            }
        }
        pub fn remove<Q: ?Sized + Ord>(&mut self, k: &Q) -> Option<V>
        where
            K: Borrow<Q>,
        {
            match self.find(k) {
                Some(i) => Some(self.v.remove(i).1),
                None => None,
            }
        }
        pub fn iter(&self) -> Iter<'_, K, V> {
            Iter { it: self.v.as_slice().iter() }
        }
        pub fn values(&self) -> btree_map::Values<'_, K, V> {
            btree_map::Values { it: self.v.as_slice().iter() }
        }
        pub fn keys(&self) -> impl Iterator<Item = &K> {
            self.v.as_slice().iter().map(|e| &e.0)
        }
        pub fn range<R: core::ops::RangeBounds<K>>(&self, range: R) -> Iter<'_, K, V> {
            use core::ops::Bound::*;
            let s = self.v.as_slice();
            // std panics when start > end or when both bounds exclude the same key
            match (range.start_bound(), range.end_bound()) {
                (Included(a), Included(b)) | (Included(a), Excluded(b)) | (Excluded(a), Included(b)) => {
                    assert!(a <= b, "range start is greater than range end in BTreeMap")
                }
                (Excluded(a), Excluded(b)) => assert!(a < b, "range start and end are equal and excluded in BTreeMap"),
                _ => {}
            }
            let mut lo = 0;
            while lo < s.len() {
                let inside = match range.start_bound() {
                    Included(a) => &s[lo].0 >= a,
                    Excluded(a) => &s[lo].0 > a,
                    Unbounded => true,
                };
                if inside {
                    break;
                }
                lo += 1;
            }
            let mut hi = lo;
            while hi < s.len() {
                let inside = match range.end_bound() {
                    Included(b) => &s[hi].0 <= b,
                    Excluded(b) => &s[hi].0 < b,
                    Unbounded => true,
                };
                if !inside {
                    break;
                }
                hi += 1;
            }
            Iter { it: s[lo..hi].iter() }
        }
        /// Returns everything at or after `k`, keeps the rest.
        pub fn split_off<Q: ?Sized + Ord>(&mut self, k: &Q) -> BTreeMap<K, V>
        where
            K: Borrow<Q>,
        {
            let i = self.lower(k);
            let n = self.v.len();
            let tail: Vec<(K, V), MAP> = self.v.drain(i..n).collect();
            BTreeMap { v: tail }
        }
    }
    impl<K, V> Default for BTreeMap<K, V> {
        fn default() -> Self {
            BTreeMap { v: Vec::new() }
        }
    }
    impl<K: Clone, V: Clone> Clone for BTreeMap<K, V> {
        fn clone(&self) -> Self {
            BTreeMap { v: self.v.clone() }
        }
    }
    impl<K: core::fmt::Debug, V: core::fmt::Debug> core::fmt::Debug for BTreeMap<K, V> {
        fn fmt(&self, f: &mut core::fmt::Formatter<'_>) -> core::fmt::Result {
            f.debug_map().entries(self.v.as_slice().iter().map(|e| (&e.0, &e.1))).finish()
        }
    }
    impl<K, V> IntoIterator for BTreeMap<K, V> {
        type Item = (K, V);
        type IntoIter = super::vec::IntoIter<(K, V), MAP>;
        fn into_iter(self) -> Self::IntoIter {
            self.v.into_iter()
        }
    }
    impl<'a, K, V> IntoIterator for &'a BTreeMap<K, V> {
        type Item = (&'a K, &'a V);
        type IntoIter = Iter<'a, K, V>;
        fn into_iter(self) -> Self::IntoIter {
            Iter { it: self.v.as_slice().iter() }
        }
    }
}

// =================================================================================================================
pub mod rc {
    use super::string::{bytes_cmp, String};
    use core::fmt;

    /// `Rc<str>` with value semantics: a bounded inline string (sharing is unobservable for an immutable str).
    pub struct Rc<T: ?Sized> {
        s: String,
        _p: core::marker::PhantomData<T>,
    }
    impl Rc<str> {
        fn mk(s: String) -> Self {
            Rc { s, _p: core::marker::PhantomData }
        }
    }
    impl Clone for Rc<str> {
        fn clone(&self) -> Self {
            Rc::mk(self.s.clone())
        }
    }
    impl core::ops::Deref for Rc<str> {
        type Target = str;
        #[inline]
        fn deref(&self) -> &str {
            self.s.as_str()
        }
    }
    impl AsRef<str> for Rc<str> {
        fn as_ref(&self) -> &str {
            self.s.as_str()
        }
    }
    impl core::borrow::Borrow<str> for Rc<str> {
        fn borrow(&self) -> &str {
            self.s.as_str()
        }
    }
    impl From<&str> for Rc<str> {
        fn from(s: &str) -> Self {
            Rc::mk(String::from(s))
        }
    }
    impl From<String> for Rc<str> {
        fn from(s: String) -> Self {
            Rc::mk(s)
        }
    }
    impl From<&String> for Rc<str> {
        fn from(s: &String) -> Self {
            Rc::mk(s.clone())
        }
    }
    impl From<std::string::String> for Rc<str> {
        fn from(s: std::string::String) -> Self {
            Rc::mk(String::from(s.as_str()))
        }
    }
    impl PartialEq for Rc<str> {
        fn eq(&self, other: &Self) -> bool {
            self.s == other.s
        }
    }
    impl Eq for Rc<str> {}
    impl PartialEq<str> for Rc<str> {
        fn eq(&self, other: &str) -> bool {
            self.s == *other
        }
    }
    impl PartialEq<&str> for Rc<str> {
        fn eq(&self, other: &&str) -> bool {
            self.s == **other
        }
    }
    impl PartialOrd for Rc<str> {
        fn partial_cmp(&self, other: &Self) -> Option<core::cmp::Ordering> {
            Some(bytes_cmp(self.s.as_str(), other.s.as_str(), super::cap::STR))
        }
    }
    impl Ord for Rc<str> {
        fn cmp(&self, other: &Self) -> core::cmp::Ordering {
            bytes_cmp(self.s.as_str(), other.s.as_str(), super::cap::STR)
        }
    }
    impl core::hash::Hash for Rc<str> {
        fn hash<H: core::hash::Hasher>(&self, state: &mut H) {
            self.s.as_str().hash(state)
        }
    }
    impl fmt::Debug for Rc<str> {
        fn fmt(&self, f: &mut fmt::Formatter<'_>) -> fmt::Result {
            fmt::Debug::fmt(self.s.as_str(), f)
        }
    }
    impl fmt::Display for Rc<str> {
        fn fmt(&self, f: &mut fmt::Formatter<'_>) -> fmt::Result {
            fmt::Display::fmt(self.s.as_str(), f)
        }
    }
}

// =================================================================================================================
pub mod sync {
    use super::cap;
    use super::string::BStr;
    use core::fmt;

    /// What an `Arc<T>` stores: `T` itself for sized types, a bounded string for `str`.
    pub trait Stored {
        type Store;
    }
    impl<T> Stored for T {
        type Store = T;
    }
    impl Stored for str {
        type Store = BStr<{ cap::ARCSTR }>;
    }

    struct Inner<S> {
        count: usize,
        value: S,
    }

    /// Reference-counted box with std's observable behaviour: `get_mut` is `None` while another clone is alive
    /// (the listing-snapshot behaviour of `Listing` depends on it). Single-threaded count.
    pub struct Arc<T: ?Sized + Stored> {
        ptr: *mut Inner<T::Store>,
    }
    impl<T: ?Sized + Stored> Arc<T> {
        fn from_store(value: T::Store) -> Self {
            Arc { ptr: Box::into_raw(Box::new(Inner { count: 1, value })) }
        }
        fn inner(&self) -> &Inner<T::Store> {
            unsafe { &*self.ptr }
        }
        pub fn strong_count(this: &Self) -> usize {
            this.inner().count
        }
        pub fn ptr_eq(a: &Self, b: &Self) -> bool {
            a.ptr == b.ptr
        }
    }
    impl<T> Arc<T> {
        pub fn new(value: T) -> Self {
            Arc::from_store(value)
        }
        pub fn get_mut(this: &mut Self) -> Option<&mut T> {
            unsafe {
                if (*this.ptr).count == 1 {
                    Some(&mut (*this.ptr).value)
                } else {
                    None
                }
            }
        }
    }
    impl<T: Clone> Arc<T> {
        pub fn make_mut(this: &mut Self) -> &mut T {
            unsafe {
                if (*this.ptr).count != 1 {
                    let fresh = Arc::new((*this.ptr).value.clone());
                    *this = fresh;
                }
                &mut (*this.ptr).value
            }
        }
    }
    impl<T: ?Sized + Stored> Clone for Arc<T> {
        fn clone(&self) -> Self {
            unsafe {
                (*self.ptr).count += 1;
            }
            Arc { ptr: self.ptr }
        }
    }
    impl<T: ?Sized + Stored> Drop for Arc<T> {
        fn drop(&mut self) {
            unsafe {
                (*self.ptr).count -= 1;
                if (*self.ptr).count == 0 {
                    drop(Box::from_raw(self.ptr));
                }
            }
        }
    }
    impl<T> core::ops::Deref for Arc<T> {
        type Target = T;
        #[inline]
        fn deref(&self) -> &T {
            unsafe { &(*self.ptr).value }
        }
    }
    impl core::ops::Deref for Arc<str> {
        type Target = str;
        #[inline]
        fn deref(&self) -> &str {
            unsafe { (*self.ptr).value.as_str() }
        }
    }
    impl<T: Default> Default for Arc<T> {
        fn default() -> Self {
            Arc::new(T::default())
        }
    }
    impl<T> From<T> for Arc<T> {
        fn from(v: T) -> Self {
            Arc::new(v)
        }
    }
    impl From<&str> for Arc<str> {
        fn from(s: &str) -> Self {
            Arc::from_store(BStr::from_str_slice(s))
        }
    }
    impl<T: fmt::Debug> fmt::Debug for Arc<T> {
        fn fmt(&self, f: &mut fmt::Formatter<'_>) -> fmt::Result {
            fmt::Debug::fmt(&**self, f)
        }
    }
    impl fmt::Debug for Arc<str> {
        fn fmt(&self, f: &mut fmt::Formatter<'_>) -> fmt::Result {
            fmt::Debug::fmt(&**self, f)
        }
    }
    impl fmt::Display for Arc<str> {
        fn fmt(&self, f: &mut fmt::Formatter<'_>) -> fmt::Result {
            fmt::Display::fmt(&**self, f)
        }
    }
    impl<T: PartialEq> PartialEq for Arc<T> {
        fn eq(&self, other: &Self) -> bool {
            **self == **other
        }
    }
    unsafe impl<T: ?Sized + Stored> Send for Arc<T> {}
    unsafe impl<T: ?Sized + Stored> Sync for Arc<T> {}
}

pub mod prelude {
    pub use super::string::{String, VStr, VToString};
    pub use super::vec::{BVec, Vec};
}
