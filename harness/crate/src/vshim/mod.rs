//! vshim — bounded, array-backed models of the std containers used by basic-lang (`String`, `Vec`, `VecDeque`,
//! `HashMap`, `BTreeMap`, `Rc<str>`, `Arc<T>`), so that CBMC sees objects of constant size and loops whose trip count is
//! bounded by a capacity. Module paths mirror std (`vshim::collections`, `vshim::rc`, `vshim::sync`, `vshim::vec`) so that a
//! textual `std::collections` -> `crate::vshim::collections` rewrite of the copied sources is enough.
//!
//! Semantics are std's for every operation the repository uses, with one difference: exceeding a capacity is reported
//! through `capacity_exceeded()` — under Kani a dedicated `VSHIM-CAPACITY` assertion followed by `assume(false)` (the
//! runner treats it as *inconclusive*, never as a pass and never as a violation); natively a panic.
//! Iteration order of `HashMap` is insertion order (std's is unspecified): nothing order-dependent is claimed.
#![allow(dead_code, clippy::all)]

pub mod cap {
    //! Capacities. Under Kani they are deliberately tiny: the cost of a harness is dominated by copying the VM's state
    //! (measured: `Runtime::default()` alone is 563 k symex steps at VEC=8 and 188 k at VEC=4), and every capacity is part
    //! of the stated bound of every harness. The Kani values come from a generated file so that a harness can ask for a
    //! different set (`//@ caps: VEC=6`); defaults: STR 8, VEC 4, MAP 4, DEQ 8, BVEC 2, ARCSTR 32.
    //! Natively they are large enough for the repository's test-suite.
    #[cfg(kani)]
    include!(concat!(env!("CARGO_MANIFEST_DIR"), "/src/caps_gen.rs"));
    #[cfg(not(kani))]
    pub const STR: usize = 272;
    #[cfg(not(kani))]
    pub const VEC: usize = 128;
    #[cfg(not(kani))]
    pub const MAP: usize = 128;
    #[cfg(not(kani))]
    pub const DEQ: usize = 1100;
    #[cfg(not(kani))]
    pub const BVEC: usize = 128;
    #[cfg(not(kani))]
    pub const ARCSTR: usize = 272;
}

#[cfg(kani)]
#[inline(never)]
pub fn capacity_exceeded() -> ! {
    kani::assert(false, "VSHIM-CAPACITY");
    kani::assume(false);
    unsafe { core::hint::unreachable_unchecked() }
}
#[cfg(not(kani))]
pub fn capacity_exceeded() -> ! {
    panic!("VSHIM-CAPACITY: a bounded container model overflowed");
}

// =================================================================================================================
pub mod string {
    use super::cap;
    use super::capacity_exceeded;
    use core::fmt;

    /// Bounded string: `N` bytes of UTF-8 inline.
    #[derive(Clone)]
    pub struct BStr<const N: usize> {
        len: usize,
        buf: [u8; N],
    }
    pub type String = BStr<{ cap::STR }>;

    impl<const N: usize> BStr<N> {
        pub const fn new() -> Self {
            BStr { len: 0, buf: [0u8; N] }
        }
        pub fn with_capacity(_n: usize) -> Self {
            Self::new()
        }
        #[inline]
        pub fn as_str(&self) -> &str {
            unsafe { core::str::from_utf8_unchecked(core::slice::from_raw_parts(self.buf.as_ptr(), self.len)) }
        }
        #[inline]
        pub fn len(&self) -> usize {
            self.len
        }
        #[inline]
        pub fn is_empty(&self) -> bool {
            self.len == 0
        }
        pub fn clear(&mut self) {
            self.len = 0;
        }
        pub fn push(&mut self, ch: char) {
            let mut tmp = [0u8; 4];
            let s = ch.encode_utf8(&mut tmp);
            self.push_str(s);
        }
        pub fn push_str(&mut self, s: &str) {
            let b = s.as_bytes();
            if self.len + b.len() > N {
                capacity_exceeded();
            }
            let mut i = 0;
            while i < b.len() {
                self.buf[self.len + i] = b[i];
                i += 1;
            }
            self.len += b.len();
        }
        pub fn pop(&mut self) -> Option<char> {
            let ch = self.as_str().chars().next_back()?;
            self.len -= ch.len_utf8();
            Some(ch)
        }
        pub fn insert(&mut self, idx: usize, ch: char) {
            let mut tmp = [0u8; 4];
            let s = ch.encode_utf8(&mut tmp);
            self.insert_str(idx, s);
        }
        pub fn insert_str(&mut self, idx: usize, s: &str) {
            assert!(self.as_str().is_char_boundary(idx));
            let b = s.as_bytes();
            let n = b.len();
            if self.len + n > N {
                capacity_exceeded();
            }
            // shift the tail right by n
            let mut i = self.len;
            while i > idx {
                i -= 1;
                self.buf[i + n] = self.buf[i];
            }
            let mut j = 0;
            while j < n {
                self.buf[idx + j] = b[j];
                j += 1;
            }
            self.len += n;
        }
        pub fn replace_range(&mut self, range: core::ops::Range<usize>, with: &str) {
            // std panics unless both ends are char boundaries and start <= end <= len
            assert!(range.start <= range.end);
            assert!(self.as_str().is_char_boundary(range.start));
            assert!(self.as_str().is_char_boundary(range.end));
            let mut out: BStr<N> = BStr::new();
            out.push_str(&self.as_str()[..range.start]);
            out.push_str(with);
            out.push_str(&self.as_str()[range.end..]);
            *self = out;
        }
        /// `str::replace(char, &str)` returning the bounded type (an inherent method shadows the `str` one).
        pub fn replace(&self, from: char, to: &str) -> BStr<N> {
            let mut out: BStr<N> = BStr::new();
            for ch in self.as_str().chars() {
                if ch == from {
                    out.push_str(to);
                } else {
                    out.push(ch);
                }
            }
            out
        }
        pub fn from_str_slice(s: &str) -> Self {
            let mut out = Self::new();
            out.push_str(s);
            out
        }
        pub fn capacity(&self) -> usize {
            N
        }
        pub fn reserve(&mut self, _n: usize) {}
        pub fn truncate(&mut self, new_len: usize) {
            if new_len < self.len {
                assert!(self.as_str().is_char_boundary(new_len));
                self.len = new_len;
            }
        }
        pub fn remove(&mut self, idx: usize) -> char {
            let ch = self.as_str()[idx..].chars().next().expect("cannot remove a char from the end of a string");
            let mut out: BStr<N> = BStr::new();
            out.push_str(&self.as_str()[..idx]);
            out.push_str(&self.as_str()[idx + ch.len_utf8()..]);
            *self = out;
            ch
        }
        pub fn retain<F: FnMut(char) -> bool>(&mut self, mut f: F) {
            let mut out: BStr<N> = BStr::new();
            for ch in self.as_str().chars() {
                if f(ch) {
                    out.push(ch);
                }
            }
            *self = out;
        }
        pub fn into_boxed_str(self) -> Self {
            self
        }
    }
    impl<const N: usize> Extend<char> for BStr<N> {
        fn extend<I: IntoIterator<Item = char>>(&mut self, iter: I) {
            for ch in iter {
                self.push(ch);
            }
        }
    }
    impl<'a, const N: usize> Extend<&'a str> for BStr<N> {
        fn extend<I: IntoIterator<Item = &'a str>>(&mut self, iter: I) {
            for s in iter {
                self.push_str(s);
            }
        }
    }
    impl<const N: usize> core::ops::AddAssign<&str> for BStr<N> {
        fn add_assign(&mut self, rhs: &str) {
            self.push_str(rhs);
        }
    }
    impl<const N: usize> core::str::FromStr for BStr<N> {
        type Err = core::convert::Infallible;
        fn from_str(s: &str) -> Result<Self, Self::Err> {
            Ok(Self::from_str_slice(s))
        }
    }

    impl<const N: usize> Default for BStr<N> {
        fn default() -> Self {
            Self::new()
        }
    }
    impl<const N: usize> core::ops::Deref for BStr<N> {
        type Target = str;
        #[inline]
        fn deref(&self) -> &str {
            self.as_str()
        }
    }
    impl<const N: usize> AsRef<str> for BStr<N> {
        fn as_ref(&self) -> &str {
            self.as_str()
        }
    }
    impl<const N: usize> core::borrow::Borrow<str> for BStr<N> {
        fn borrow(&self) -> &str {
            self.as_str()
        }
    }
    impl<const N: usize> From<&str> for BStr<N> {
        fn from(s: &str) -> Self {
            Self::from_str_slice(s)
        }
    }
    impl<const N: usize> From<&BStr<N>> for BStr<N> {
        fn from(s: &BStr<N>) -> Self {
            s.clone()
        }
    }
    impl<const N: usize> From<char> for BStr<N> {
        fn from(c: char) -> Self {
            let mut s = Self::new();
            s.push(c);
            s
        }
    }
    impl<const N: usize> From<std::string::String> for BStr<N> {
        fn from(s: std::string::String) -> Self {
            Self::from_str_slice(&s)
        }
    }
    /// Byte-wise equality with a constant trip count (slice `==` would be a memcmp over a symbolic length).
    pub fn bytes_eq<const N: usize>(a: &BStr<N>, b: &str) -> bool {
        let bb = b.as_bytes();
        if a.len != bb.len() {
            return false;
        }
        let mut i = 0;
        while i < N {
            if i < a.len && a.buf[i] != bb[i] {
                return false;
            }
            i += 1;
        }
        true
    }
    impl<const N: usize, const M: usize> PartialEq<BStr<M>> for BStr<N> {
        fn eq(&self, other: &BStr<M>) -> bool {
            bytes_eq(self, other.as_str())
        }
    }
    impl<const N: usize> Eq for BStr<N> {}
    impl<const N: usize> PartialEq<str> for BStr<N> {
        fn eq(&self, other: &str) -> bool {
            bytes_eq(self, other)
        }
    }
    impl<const N: usize> PartialEq<&str> for BStr<N> {
        fn eq(&self, other: &&str) -> bool {
            bytes_eq(self, other)
        }
    }
    impl<const N: usize> PartialEq<BStr<N>> for str {
        fn eq(&self, other: &BStr<N>) -> bool {
            bytes_eq(other, self)
        }
    }
    impl<const N: usize> PartialEq<BStr<N>> for &str {
        fn eq(&self, other: &BStr<N>) -> bool {
            bytes_eq(other, self)
        }
    }
    /// Lexicographic byte order (= `str` order) with a constant trip count.
    pub fn bytes_cmp(a: &str, b: &str, n: usize) -> core::cmp::Ordering {
        let (ab, bb) = (a.as_bytes(), b.as_bytes());
        let mut i = 0;
        while i < n {
            if i >= ab.len() || i >= bb.len() {
                break;
            }
            if ab[i] != bb[i] {
                return ab[i].cmp(&bb[i]);
            }
            i += 1;
        }
        ab.len().cmp(&bb.len())
    }
    impl<const N: usize> PartialOrd for BStr<N> {
        fn partial_cmp(&self, other: &Self) -> Option<core::cmp::Ordering> {
            Some(bytes_cmp(self.as_str(), other.as_str(), N))
        }
    }
    impl<const N: usize> Ord for BStr<N> {
        fn cmp(&self, other: &Self) -> core::cmp::Ordering {
            bytes_cmp(self.as_str(), other.as_str(), N)
        }
    }
    impl<const N: usize> core::hash::Hash for BStr<N> {
        fn hash<H: core::hash::Hasher>(&self, state: &mut H) {
            self.as_str().hash(state)
        }
    }
    impl<const N: usize> fmt::Debug for BStr<N> {
        fn fmt(&self, f: &mut fmt::Formatter<'_>) -> fmt::Result {
            fmt::Debug::fmt(self.as_str(), f)
        }
    }
    impl<const N: usize> fmt::Display for BStr<N> {
        fn fmt(&self, f: &mut fmt::Formatter<'_>) -> fmt::Result {
            fmt::Display::fmt(self.as_str(), f)
        }
    }
    impl<const N: usize> fmt::Write for BStr<N> {
        fn write_str(&mut self, s: &str) -> fmt::Result {
            self.push_str(s);
            Ok(())
        }
    }
    impl<const N: usize> core::iter::FromIterator<char> for BStr<N> {
        fn from_iter<I: IntoIterator<Item = char>>(iter: I) -> Self {
            let mut s = Self::new();
            for ch in iter {
                s.push(ch);
            }
            s
        }
    }
    impl<const N: usize, const M: usize> core::iter::FromIterator<BStr<M>> for BStr<N> {
        fn from_iter<I: IntoIterator<Item = BStr<M>>>(iter: I) -> Self {
            let mut s = Self::new();
            for part in iter {
                s.push_str(part.as_str());
            }
            s
        }
    }
    impl<'a, const N: usize> core::iter::FromIterator<&'a str> for BStr<N> {
        fn from_iter<I: IntoIterator<Item = &'a str>>(iter: I) -> Self {
            let mut s = Self::new();
            for part in iter {
                s.push_str(part);
            }
            s
        }
    }
    impl<const N: usize> core::ops::Add<&str> for BStr<N> {
        type Output = BStr<N>;
        fn add(mut self, rhs: &str) -> BStr<N> {
            self.push_str(rhs);
            self
        }
    }

    /// `x.to_string()` is rewritten to `x.vto_string()`: formats through the real `Display` impl into the bounded string.
    pub trait VToString {
        fn vto_string(&self) -> String;
    }
    impl<T: fmt::Display + ?Sized> VToString for T {
        fn vto_string(&self) -> String {
            let mut s = String::new();
            let _ = fmt::write(&mut s, format_args!("{}", self));
            s
        }
    }
    pub fn format(args: fmt::Arguments<'_>) -> String {
        let mut s = String::new();
        let _ = fmt::write(&mut s, args);
        s
    }

    /// Ghost variable: the length most recently requested from a `repeat` model (TAB / SPC / STRING$ column arithmetic
    /// is checked on the requested length, the produced string is capped at the capacity under Kani).
    pub static mut LAST_REPEAT_REQUEST: usize = 0;
    pub fn last_repeat_request() -> usize {
        unsafe { LAST_REPEAT_REQUEST }
    }
    fn repeat_into(unit: &str, n: usize) -> String {
        unsafe {
            LAST_REPEAT_REQUEST = n;
        }
        let mut s = String::new();
        let mut i = 0;
        #[cfg(kani)]
        let limit = if unit.len() == 0 { 0 } else { cap::STR / unit.len() };
        #[cfg(not(kani))]
        let limit = usize::MAX;
        while i < n && i < limit {
            s.push_str(unit);
            i += 1;
        }
        s
    }
    /// `" ".repeat(n)`
    pub fn repeat_blank(n: usize) -> String {
        repeat_into(" ", n)
    }

    /// Bounded replacements for `str` routines whose std implementation CBMC cannot digest.
    pub trait VStr {
        /// `str::find(&str)`: naive search instead of std's two-way searcher.
        fn vfind(&self, pat: &str) -> Option<usize>;
        /// `str::repeat`
        fn vrepeat(&self, n: usize) -> String;
    }
    impl VStr for str {
        fn vfind(&self, pat: &str) -> Option<usize> {
            let (h, p) = (self.as_bytes(), pat.as_bytes());
            if p.len() > h.len() {
                return None;
            }
            let mut i = 0;
            while i + p.len() <= h.len() {
                let mut j = 0;
                let mut ok = true;
                while j < p.len() {
                    if h[i + j] != p[j] {
                        ok = false;
                        break;
                    }
                    j += 1;
                }
                if ok {
                    return Some(i);
                }
                i += 1;
            }
            None
        }
        fn vrepeat(&self, n: usize) -> String {
            repeat_into(self, n)
        }
    }
}

// =================================================================================================================
pub mod vec {
    use super::cap::{BVEC, VEC};
    use super::capacity_exceeded;
    use core::mem::{ManuallyDrop, MaybeUninit};

    /// Element storage. Under Kani a TYPED array `[T; VEC]` (unused slots hold never-read garbage, the array is never dropped
    /// as a whole): measured on an Opcode-sized element, reading an enum back through `MaybeUninit` (a union) makes CBMC lose the
    /// discriminant (273 of 1035 VCCs left vs 6 of 89), which turns every VM dispatch into a walk over all opcodes.
    /// Natively the same API over `[MaybeUninit<T>; VEC]` (no uninitialised typed values outside the model checker).
    #[cfg(kani)]
    struct Store<T, const N: usize>(ManuallyDrop<[T; N]>);
    #[cfg(kani)]
    impl<T, const N: usize> Store<T, N> {
        const fn new() -> Self {
            Store(unsafe { MaybeUninit::uninit().assume_init() })
        }
        #[inline]
        unsafe fn write(&mut self, i: usize, v: T) {
            core::ptr::write(&mut self.0[i], v)
        }
        #[inline]
        unsafe fn read(&self, i: usize) -> T {
            core::ptr::read(&self.0[i])
        }
        #[inline]
        unsafe fn get(&self, i: usize) -> &T {
            &self.0[i]
        }
        #[inline]
        unsafe fn get_mut(&mut self, i: usize) -> &mut T {
            &mut self.0[i]
        }
        #[inline]
        unsafe fn slice(&self, len: usize) -> &[T] {
            &self.0[..len]
        }
        #[inline]
        unsafe fn slice_mut(&mut self, len: usize) -> &mut [T] {
            &mut self.0[..len]
        }
    }
    #[cfg(not(kani))]
    struct Store<T, const N: usize>([MaybeUninit<T>; N]);
    #[cfg(not(kani))]
    impl<T, const N: usize> Store<T, N> {
        const fn new() -> Self {
            Store([const { MaybeUninit::uninit() }; N])
        }
        #[inline]
        unsafe fn write(&mut self, i: usize, v: T) {
            self.0[i] = MaybeUninit::new(v);
        }
        #[inline]
        unsafe fn read(&self, i: usize) -> T {
            self.0[i].assume_init_read()
        }
        #[inline]
        unsafe fn get(&self, i: usize) -> &T {
            self.0[i].assume_init_ref()
        }
        #[inline]
        unsafe fn get_mut(&mut self, i: usize) -> &mut T {
            self.0[i].assume_init_mut()
        }
        #[inline]
        unsafe fn slice(&self, len: usize) -> &[T] {
            core::slice::from_raw_parts(self.0.as_ptr() as *const T, len)
        }
        #[inline]
        unsafe fn slice_mut(&mut self, len: usize) -> &mut [T] {
            core::slice::from_raw_parts_mut(self.0.as_mut_ptr() as *mut T, len)
        }
    }

    /// Bounded vector: at most `VEC` elements in an INLINE array. (Measured: CBMC treats heap objects byte-wise and then
    /// cannot resolve enum discriminants read back from them — a one-instruction VM step took 242 s with boxed storage;
    /// inline typed storage keeps constant propagation intact.) The two recursive AST positions use `BVec` instead.
    pub struct Vec<T, const N: usize = VEC> {
        len: usize,
        buf: Store<T, N>,
    }

    impl<T, const N: usize> Vec<T, N> {
        pub const fn new() -> Self {
            Vec { len: 0, buf: Store::new() }
        }
        pub fn with_capacity(_n: usize) -> Self {
            Self::new()
        }
        #[inline]
        pub fn len(&self) -> usize {
            self.len
        }
        #[inline]
        pub fn is_empty(&self) -> bool {
            self.len == 0
        }
        #[inline]
        pub fn as_slice(&self) -> &[T] {
            unsafe { self.buf.slice(self.len) }
        }
        #[inline]
        pub fn as_mut_slice(&mut self) -> &mut [T] {
            let len = self.len;
            unsafe { self.buf.slice_mut(len) }
        }
        // typed element access (inherent methods shadow the slice ones reached through Deref)
        #[inline]
        pub fn get(&self, i: usize) -> Option<&T> {
            if i < self.len {
                Some(unsafe { self.buf.get(i) })
            } else {
                None
            }
        }
        #[inline]
        pub fn get_mut(&mut self, i: usize) -> Option<&mut T> {
            if i < self.len {
                Some(unsafe { self.buf.get_mut(i) })
            } else {
                None
            }
        }
        #[inline]
        pub fn last(&self) -> Option<&T> {
            if self.len == 0 {
                None
            } else {
                Some(unsafe { self.buf.get(self.len - 1) })
            }
        }
        #[inline]
        pub fn first(&self) -> Option<&T> {
            self.get(0)
        }
        pub fn push(&mut self, v: T) {
            if self.len >= N {
                capacity_exceeded();
            }
            let len = self.len;
            unsafe { self.buf.write(len, v) };
            self.len += 1;
        }
        pub fn pop(&mut self) -> Option<T> {
            if self.len == 0 {
                return None;
            }
            self.len -= 1;
            let len = self.len;
            Some(unsafe { self.buf.read(len) })
        }
        pub fn clear(&mut self) {
            if core::mem::needs_drop::<T>() {
                while let Some(v) = self.pop() {
                    drop(v);
                }
            }
            self.len = 0;
        }
        pub fn truncate(&mut self, n: usize) {
            while self.len > n {
                drop(self.pop());
            }
        }
        // insert / remove / drain move elements between CONCRETE slots under symbolic guards (loops run over the whole capacity):
        // with "while i > idx" style loops the slot indices themselves become symbolic and every nested use (the lexer's splice
        // passes) multiplies the unwinding work.
        pub fn insert(&mut self, idx: usize, v: T) {
            assert!(idx <= self.len);
            if self.len >= N {
                capacity_exceeded();
            }
            let len = self.len;
            let mut j = N;
            while j > 1 {
                j -= 1;
                if j > idx && j <= len {
                    unsafe {
                        let t = self.buf.read(j - 1);
                        self.buf.write(j, t)
                    };
                }
            }
            unsafe { self.buf.write(idx, v) };
            self.len += 1;
        }
        pub fn remove(&mut self, idx: usize) -> T {
            assert!(idx < self.len);
            let len = self.len;
            let out = unsafe { self.buf.read(idx) };
            let mut j = 0;
            while j + 1 < N {
                if j >= idx && j + 1 < len {
                    unsafe {
                        let t = self.buf.read(j + 1);
                        self.buf.write(j, t)
                    };
                }
                j += 1;
            }
            self.len -= 1;
            out
        }
        pub fn append(&mut self, other: &mut Vec<T, N>) {
            let n = other.len;
            let mut i = 0;
            while i < n {
                let v = unsafe { other.buf.read(i) };
                self.push(v);
                i += 1;
            }
            other.len = 0;
        }
        fn bounds<R: core::ops::RangeBounds<usize>>(&self, range: R) -> (usize, usize) {
            use core::ops::Bound::*;
            let start = match range.start_bound() {
                Included(&s) => s,
                Excluded(&s) => s + 1,
                Unbounded => 0,
            };
            let end = match range.end_bound() {
                Included(&e) => e + 1,
                Excluded(&e) => e,
                Unbounded => self.len,
            };
            assert!(start <= end && end <= self.len);
            (start, end)
        }
        /// Eager drain: the drained elements are moved out immediately, the tail is shifted down.
        pub fn drain<R: core::ops::RangeBounds<usize>>(&mut self, range: R) -> Drain<'_, T, N> {
            let (start, end) = self.bounds(range);
            let mut out: Vec<T, N> = Vec::new();
            let len = self.len;
            let n = end - start;
            // moved-out elements: out[j] = self[start + j]
            let mut j = 0;
            while j < N {
                if j < n {
                    unsafe {
                        let t = self.buf.read(start + j);
                        out.buf.write(j, t)
                    };
                }
                j += 1;
            }
            out.len = n;
            // tail: self[j] = self[j + n] for j in start .. len - n
            let mut k = 0;
            while k < N {
                if k >= start && k + n < len {
                    unsafe {
                        let t = self.buf.read(k + n);
                        self.buf.write(k, t)
                    };
                }
                k += 1;
            }
            self.len = len - n;
            Drain { items: out, front: 0, _p: core::marker::PhantomData }
        }
        /// Eager splice (std's is lazy and applied on drop of the returned iterator; the repository drops it at once).
        pub fn splice<R: core::ops::RangeBounds<usize>, I: IntoIterator<Item = T>>(&mut self, range: R, with: I) {
            let (start, end) = self.bounds(range);
            drop(self.drain(start..end));
            let mut at = start;
            for v in with {
                self.insert(at, v);
                at += 1;
            }
        }
        pub fn retain<F: FnMut(&T) -> bool>(&mut self, mut f: F) {
            let mut i = 0;
            while i < self.len {
                if f(&self.as_slice()[i]) {
                    i += 1;
                } else {
                    drop(self.remove(i));
                }
            }
        }
        pub fn reverse_in_place(&mut self) {
            self.as_mut_slice().reverse()
        }
        pub fn capacity(&self) -> usize {
            N
        }
        pub fn reserve(&mut self, _n: usize) {}
        pub fn shrink_to_fit(&mut self) {}
        pub fn extend_from_slice(&mut self, other: &[T])
        where
            T: Clone,
        {
            for x in other {
                self.push(x.clone());
            }
        }
        pub fn swap_remove(&mut self, idx: usize) -> T {
            assert!(idx < self.len);
            let last = self.len - 1;
            self.as_mut_slice().swap(idx, last);
            self.pop().unwrap()
        }
        pub fn resize(&mut self, n: usize, value: T)
        where
            T: Clone,
        {
            while self.len > n {
                drop(self.pop());
            }
            while self.len < n {
                self.push(value.clone());
            }
        }
        pub fn split_off(&mut self, at: usize) -> Vec<T, N> {
            assert!(at <= self.len);
            let n = self.len;
            self.drain(at..n).collect()
        }
        pub fn dedup(&mut self)
        where
            T: PartialEq,
        {
            let mut i = 1;
            while i < self.len {
                if self.as_slice()[i] == self.as_slice()[i - 1] {
                    drop(self.remove(i));
                } else {
                    i += 1;
                }
            }
        }
    }

    impl<T, const N: usize> Drop for Vec<T, N> {
        fn drop(&mut self) {
            if core::mem::needs_drop::<T>() {
                while let Some(v) = self.pop() {
                    drop(v);
                }
            }
        }
    }
    impl<T, const N: usize> Default for Vec<T, N> {
        fn default() -> Self {
            Vec::new()
        }
    }
    impl<T, const N: usize> core::ops::Deref for Vec<T, N> {
        type Target = [T];
        #[inline]
        fn deref(&self) -> &[T] {
            self.as_slice()
        }
    }
    impl<T, const N: usize> core::ops::DerefMut for Vec<T, N> {
        #[inline]
        fn deref_mut(&mut self) -> &mut [T] {
            self.as_mut_slice()
        }
    }
    impl<T: Clone, const N: usize> Clone for Vec<T, N> {
        fn clone(&self) -> Self {
            let mut out = Vec::new();
            let mut i = 0;
            while i < self.len {
                out.push(unsafe { self.buf.get(i) }.clone());
                i += 1;
            }
            out
        }
    }
    impl<T: PartialEq, const N: usize> PartialEq for Vec<T, N> {
        fn eq(&self, other: &Self) -> bool {
            if self.len != other.len {
                return false;
            }
            let mut i = 0;
            while i < self.len {
                if unsafe { self.buf.get(i) } != unsafe { other.buf.get(i) } {
                    return false;
                }
                i += 1;
            }
            true
        }
    }
    impl<T: Eq, const N: usize> Eq for Vec<T, N> {}
    impl<T: PartialOrd, const N: usize> PartialOrd for Vec<T, N> {
        fn partial_cmp(&self, other: &Self) -> Option<core::cmp::Ordering> {
            self.as_slice().partial_cmp(other.as_slice())
        }
    }
    impl<T: Ord, const N: usize> Ord for Vec<T, N> {
        fn cmp(&self, other: &Self) -> core::cmp::Ordering {
            self.as_slice().cmp(other.as_slice())
        }
    }
    impl<T: core::hash::Hash, const N: usize> core::hash::Hash for Vec<T, N> {
        fn hash<H: core::hash::Hasher>(&self, state: &mut H) {
            self.as_slice().hash(state)
        }
    }
    impl<T, const N: usize> AsRef<[T]> for Vec<T, N> {
        fn as_ref(&self) -> &[T] {
            self.as_slice()
        }
    }
    impl<T, const N: usize> core::borrow::Borrow<[T]> for Vec<T, N> {
        fn borrow(&self) -> &[T] {
            self.as_slice()
        }
    }
    impl<T: Clone, const N: usize> From<&[T]> for Vec<T, N> {
        fn from(s: &[T]) -> Self {
            let mut v = Vec::new();
            for x in s {
                v.push(x.clone());
            }
            v
        }
    }
    impl<T, const N: usize, const M: usize> From<[T; M]> for Vec<T, N> {
        fn from(a: [T; M]) -> Self {
            let mut v = Vec::new();
            for x in a {
                v.push(x);
            }
            v
        }
    }
    impl<T: PartialEq, const N: usize> PartialEq<[T]> for Vec<T, N> {
        fn eq(&self, other: &[T]) -> bool {
            self.as_slice() == other
        }
    }
    impl<T: PartialEq, const N: usize, const M: usize> PartialEq<[T; M]> for Vec<T, N> {
        fn eq(&self, other: &[T; M]) -> bool {
            self.as_slice() == &other[..]
        }
    }
    impl<T: core::fmt::Debug, const N: usize> core::fmt::Debug for Vec<T, N> {
        fn fmt(&self, f: &mut core::fmt::Formatter<'_>) -> core::fmt::Result {
            f.debug_list().entries(self.as_slice().iter()).finish()
        }
    }
    impl<T, const N: usize> core::iter::FromIterator<T> for Vec<T, N> {
        fn from_iter<I: IntoIterator<Item = T>>(iter: I) -> Self {
            let mut v = Vec::new();
            for x in iter {
                v.push(x);
            }
            v
        }
    }
    impl<T, const N: usize> Extend<T> for Vec<T, N> {
        fn extend<I: IntoIterator<Item = T>>(&mut self, iter: I) {
            for x in iter {
                self.push(x);
            }
        }
    }
    impl<'a, T, const N: usize> IntoIterator for &'a Vec<T, N> {
        type Item = &'a T;
        type IntoIter = core::slice::Iter<'a, T>;
        fn into_iter(self) -> Self::IntoIter {
            self.as_slice().iter()
        }
    }
    impl<'a, T, const N: usize> IntoIterator for &'a mut Vec<T, N> {
        type Item = &'a mut T;
        type IntoIter = core::slice::IterMut<'a, T>;
        fn into_iter(self) -> Self::IntoIter {
            self.as_mut_slice().iter_mut()
        }
    }
    impl<T, const N: usize> IntoIterator for Vec<T, N> {
        type Item = T;
        type IntoIter = Drain<'static, T, N>;
        fn into_iter(self) -> Self::IntoIter {
            Drain { items: self, front: 0, _p: core::marker::PhantomData }
        }
    }

    /// Owning iterator over moved-out elements (`drain`, `into_iter`).
    pub struct Drain<'a, T, const N: usize = VEC> {
        items: Vec<T, N>,
        front: usize,
        _p: core::marker::PhantomData<&'a ()>,
    }
    pub type IntoIter<T, const N: usize = VEC> = Drain<'static, T, N>;
    impl<'a, T, const N: usize> Iterator for Drain<'a, T, N> {
        type Item = T;
        fn next(&mut self) -> Option<T> {
            if self.front >= self.items.len {
                return None;
            }
            let i = self.front;
            self.front += 1;
            Some(unsafe { self.items.buf.read(i) })
        }
        fn size_hint(&self) -> (usize, Option<usize>) {
            let n = self.items.len - self.front;
            (n, Some(n))
        }
    }
    impl<'a, T, const N: usize> DoubleEndedIterator for Drain<'a, T, N> {
        fn next_back(&mut self) -> Option<T> {
            if self.front >= self.items.len {
                return None;
            }
            self.items.len -= 1;
            let i = self.items.len;
            Some(unsafe { self.items.buf.read(i) })
        }
    }
    impl<'a, T, const N: usize> ExactSizeIterator for Drain<'a, T, N> {}
    impl<'a, T, const N: usize> Drop for Drain<'a, T, N> {
        fn drop(&mut self) {
            if core::mem::needs_drop::<T>() {
                while let Some(v) = self.next() {
                    drop(v);
                }
            }
            // everything up to `front` has been moved out; make the inner Vec forget it
            self.items.len = 0;
        }
    }

    /// Heap-indirect bounded vector for the recursive AST positions (`Vec<Statement>`, `Vec<Expression>`, `Vec<Variable>` are
    /// rewritten to `BVec<..>` in the copied sources). The LENGTH is kept inline and the element store is allocated on first
    /// push: CBMC reads heap objects byte-wise, and with the length on the heap an empty AST looked like one of unknown
    /// length (measured: RENUM of a token-less line walked every statement kind).
    pub struct BVec<T> {
        len: usize,
        /// element store: heap (owned) or, for harness-built ASTs, a caller-provided stack object (`harness_on`)
        ptr: *mut Store<T, BVEC>,
        owned: bool,
    }
    /// Storage a harness can put on its own stack and lend to a `BVec` (CBMC keeps stack objects typed; heap objects are bytes).
    pub struct BStore<T>(Store<T, BVEC>);
    impl<T> BStore<T> {
        pub fn new() -> Self {
            BStore(Store::new())
        }
    }
    impl<T> BVec<T> {
        pub fn new() -> Self {
            BVec { len: 0, ptr: core::ptr::null_mut(), owned: false }
        }
        pub fn with_capacity(_n: usize) -> Self {
            Self::new()
        }
        /// Harness set-up only: an empty vector whose elements live in `store`. The caller keeps `store` alive for as long as the
        /// vector (or anything it was moved into) is used and `mem::forget`s the owner at the end.
        pub fn harness_on(store: &mut BStore<T>) -> Self {
            BVec { len: 0, ptr: &mut store.0 as *mut Store<T, BVEC>, owned: false }
        }
        #[inline]
        pub fn len(&self) -> usize {
            self.len
        }
        #[inline]
        pub fn is_empty(&self) -> bool {
            self.len == 0
        }
        pub fn as_slice(&self) -> &[T] {
            if self.len > 0 && !self.ptr.is_null() {
                unsafe { (*self.ptr).slice(self.len) }
            } else {
                &[]
            }
        }
        pub fn push(&mut self, v: T) {
            if self.len >= BVEC {
                capacity_exceeded();
            }
            if self.ptr.is_null() {
                self.ptr = Box::into_raw(Box::new(Store::new()));
                self.owned = true;
            }
            let len = self.len;
            unsafe { (*self.ptr).write(len, v) };
            self.len += 1;
        }
        pub fn pop(&mut self) -> Option<T> {
            if self.len == 0 || self.ptr.is_null() {
                return None;
            }
            self.len -= 1;
            let len = self.len;
            Some(unsafe { (*self.ptr).read(len) })
        }
        pub fn iter(&self) -> core::slice::Iter<'_, T> {
            self.as_slice().iter()
        }
        pub fn clear(&mut self) {
            while let Some(v) = self.pop() {
                drop(v);
            }
        }
    }
    impl<T> Drop for BVec<T> {
        fn drop(&mut self) {
            if core::mem::needs_drop::<T>() {
                while let Some(v) = self.pop() {
                    drop(v);
                }
            }
            if self.owned && !self.ptr.is_null() {
                unsafe { drop(Box::from_raw(self.ptr)) };
            }
        }
    }
    impl<T> Default for BVec<T> {
        fn default() -> Self {
            BVec::new()
        }
    }
    impl<T> core::ops::Deref for BVec<T> {
        type Target = [T];
        fn deref(&self) -> &[T] {
            self.as_slice()
        }
    }
    impl<T: Clone> Clone for BVec<T> {
        fn clone(&self) -> Self {
            let mut out = BVec::new();
            for x in self.as_slice() {
                out.push(x.clone());
            }
            out
        }
    }
    impl<T: PartialEq> PartialEq for BVec<T> {
        fn eq(&self, other: &Self) -> bool {
            if self.len != other.len {
                return false;
            }
            let (a, b) = (self.as_slice(), other.as_slice());
            let mut i = 0;
            while i < self.len {
                if a[i] != b[i] {
                    return false;
                }
                i += 1;
            }
            true
        }
    }
    impl<T: core::fmt::Debug> core::fmt::Debug for BVec<T> {
        fn fmt(&self, f: &mut core::fmt::Formatter<'_>) -> core::fmt::Result {
            f.debug_list().entries(self.as_slice().iter()).finish()
        }
    }
    impl<T> core::iter::FromIterator<T> for BVec<T> {
        fn from_iter<I: IntoIterator<Item = T>>(iter: I) -> Self {
            let mut v = BVec::new();
            for x in iter {
                v.push(x);
            }
            v
        }
    }
    impl<'a, T> IntoIterator for &'a BVec<T> {
        type Item = &'a T;
        type IntoIter = core::slice::Iter<'a, T>;
        fn into_iter(self) -> Self::IntoIter {
            self.as_slice().iter()
        }
    }
    /// Owning iterator of a `BVec` (front to back).
    pub struct BIntoIter<T> {
        v: BVec<T>,
        front: usize,
    }
    impl<T> Iterator for BIntoIter<T> {
        type Item = T;
        fn next(&mut self) -> Option<T> {
            if self.front >= self.v.len {
                return None;
            }
            let i = self.front;
            self.front += 1;
            if self.v.ptr.is_null() {
                return None;
            }
            Some(unsafe { (*self.v.ptr).read(i) })
        }
    }
    impl<T> Drop for BIntoIter<T> {
        fn drop(&mut self) {
            if core::mem::needs_drop::<T>() {
                while let Some(v) = self.next() {
                    drop(v);
                }
            }
            self.v.len = 0;
        }
    }
    impl<T> IntoIterator for BVec<T> {
        type Item = T;
        type IntoIter = BIntoIter<T>;
        fn into_iter(self) -> Self::IntoIter {
            BIntoIter { v: self, front: 0 }
        }
    }

    /// What the crate-level `vec!` macro builds: the target type (`Vec` or `BVec`) is inferred from the context.
    pub trait VecLike<T>: Default {
        fn vpush(&mut self, v: T);
    }
    impl<T> VecLike<T> for Vec<T> {
        fn vpush(&mut self, v: T) {
            self.push(v)
        }
    }
    impl<T> VecLike<T> for BVec<T> {
        fn vpush(&mut self, v: T) {
            self.push(v)
        }
    }
}

// =================================================================================================================
pub mod collections {
    use super::cap::{DEQ, MAP};
    use super::vec::Vec;
    use core::borrow::Borrow;

    /// Progress fuel for termination harnesses: every `pop_front` of a deque burns one unit once a harness has set a budget.
    /// A scanner loop that stops consuming its input (push-back without progress) exhausts it, which turns a would-be hang into an
    /// ordinary assertion failure with a counterexample trace (Kani's playback does not emit values for unwinding assertions).
    pub static mut FUEL: isize = -1;
    pub fn set_fuel(n: usize) {
        unsafe { FUEL = n as isize }
    }
    #[inline]
    fn burn() {
        unsafe {
            if FUEL >= 0 {
                if FUEL == 0 {
                    fuel_exhausted();
                }
                FUEL -= 1;
            }
        }
    }
    #[cfg(kani)]
    fn fuel_exhausted() -> ! {
        kani::assert(false, "VSHIM-FUEL: the scanner keeps popping characters without making progress (it does not terminate)");
        kani::assume(false);
        unsafe { core::hint::unreachable_unchecked() }
    }
    #[cfg(not(kani))]
    fn fuel_exhausted() -> ! {
        if std::env::var_os("VK_NO_FUEL").is_some() {
            // replay without the budget: let the real loop run (the runner's watchdog then observes the hang itself)
            unsafe { FUEL = -1 };
            loop {
                std::thread::sleep(std::time::Duration::from_secs(3600));
            }
        }
        panic!("VSHIM-FUEL: the scanner keeps popping characters without making progress (it does not terminate)");
    }

    /// Deque with the front at the END of a bounded Vec (pop_front = pop).
    pub struct VecDeque<T> {
        v: Vec<T, DEQ>,
    }
    impl<T> VecDeque<T> {
        pub fn new() -> Self {
            VecDeque { v: Vec::new() }
        }
        pub fn with_capacity(_n: usize) -> Self {
            Self::new()
        }
        pub fn len(&self) -> usize {
            self.v.len()
        }
        pub fn is_empty(&self) -> bool {
            self.v.is_empty()
        }
        pub fn front(&self) -> Option<&T> {
            self.v.as_slice().last()
        }
        pub fn back(&self) -> Option<&T> {
            self.v.as_slice().first()
        }
        pub fn pop_front(&mut self) -> Option<T> {
            burn();
            self.v.pop()
        }
        pub fn push_front(&mut self, x: T) {
            self.v.push(x)
        }
        pub fn push_back(&mut self, x: T) {
            self.v.insert(0, x)
        }
        pub fn pop_back(&mut self) -> Option<T> {
            if self.v.is_empty() {
                None
            } else {
                Some(self.v.remove(0))
            }
        }
        pub fn clear(&mut self) {
            self.v.clear()
        }
        /// Only the full range is used by the repository (`drain(..)`): front-to-back order.
        pub fn drain<R: core::ops::RangeBounds<usize>>(&mut self, range: R) -> core::iter::Rev<super::vec::Drain<'_, T, DEQ>> {
            assert!(matches!(range.start_bound(), core::ops::Bound::Unbounded));
            assert!(matches!(range.end_bound(), core::ops::Bound::Unbounded));
            self.v.drain(..).rev()
        }
        pub fn iter(&self) -> core::iter::Rev<core::slice::Iter<'_, T>> {
            self.v.as_slice().iter().rev()
        }
    }
    impl<T> Default for VecDeque<T> {
        fn default() -> Self {
            Self::new()
        }
    }
    impl<T> core::iter::FromIterator<T> for VecDeque<T> {
        fn from_iter<I: IntoIterator<Item = T>>(iter: I) -> Self {
            let mut v: Vec<T, DEQ> = Vec::new();
            for x in iter {
                v.push(x);
            }
            v.reverse_in_place();
            VecDeque { v }
        }
    }
    impl<T: core::fmt::Debug> core::fmt::Debug for VecDeque<T> {
        fn fmt(&self, f: &mut core::fmt::Formatter<'_>) -> core::fmt::Result {
            f.debug_list().entries(self.iter()).finish()
        }
    }

    // ---------------------------------------------------------------------------------------------------------
    // Maps: a fixed array of slots, never shifted. Every update is written as "for each concrete slot i: if <cond on slot i> then
    // write slot i", never as "compute a symbolic index, then write there": conditional writes to concrete slots stay
    // field-sensitive in CBMC, whereas shifting Line-sized elements at a symbolic position ran the propositional reduction out of
    // memory (measured on three symbolic inserts into the listing). Ordered iteration of the BTreeMap model selects the next key
    // by comparison on demand.

    struct Slots<K, V> {
        s: [Option<(K, V)>; MAP],
    }
    impl<K, V> Slots<K, V> {
        const fn new() -> Self {
            Slots { s: [const { None }; MAP] }
        }
        fn len(&self) -> usize {
            let mut n = 0;
            let mut i = 0;
            while i < MAP {
                if self.s[i].is_some() {
                    n += 1;
                }
                i += 1;
            }
            n
        }
        fn clear(&mut self) {
            let mut i = 0;
            while i < MAP {
                self.s[i] = None;
                i += 1;
            }
        }
        fn position<Q: ?Sized + PartialEq>(&self, k: &Q) -> Option<usize>
        where
            K: Borrow<Q>,
        {
            let mut i = 0;
            while i < MAP {
                if let Some(e) = &self.s[i] {
                    if e.0.borrow() == k {
                        return Some(i);
                    }
                }
                i += 1;
            }
            None
        }
        /// Reference to the occupied slot `at`. The result is built as a chain over the OCCUPIED slots only, starting from a valid
        /// fallback (the first occupied slot): a reference that may also be null / point into an empty slot makes every later read
        /// through it partly nondeterministic for CBMC (measured: the parser then "saw" tokens in a token-less line).
        fn pick(&self, at: usize) -> &(K, V) {
            let mut out: Option<&(K, V)> = None;
            let mut i = 0;
            while i < MAP {
                if let Some(e) = &self.s[i] {
                    if out.is_none() || i == at {
                        out = Some(e);
                    }
                }
                i += 1;
            }
            match out {
                Some(e) => e,
                None => unreachable!("pick on an empty map"),
            }
        }
        fn pick_mut(&mut self, at: usize) -> &mut (K, V) {
            let mut out: *mut (K, V) = core::ptr::null_mut();
            let mut i = 0;
            while i < MAP {
                if let Some(e) = &mut self.s[i] {
                    if out.is_null() || i == at {
                        out = e as *mut (K, V);
                    }
                }
                i += 1;
            }
            assert!(!out.is_null());
            unsafe { &mut *out }
        }
        fn find<Q: ?Sized + PartialEq>(&self, k: &Q) -> usize
        where
            K: Borrow<Q>,
        {
            let mut at = MAP;
            let mut i = 0;
            while i < MAP {
                if let Some(e) = &self.s[i] {
                    if at == MAP && e.0.borrow() == k {
                        at = i;
                    }
                }
                i += 1;
            }
            at
        }
        fn get<Q: ?Sized + PartialEq>(&self, k: &Q) -> Option<&V>
        where
            K: Borrow<Q>,
        {
            let at = self.find(k);
            if at == MAP {
                None
            } else {
                Some(&self.pick(at).1)
            }
        }
        fn get_mut<Q: ?Sized + PartialEq>(&mut self, k: &Q) -> Option<&mut V>
        where
            K: Borrow<Q>,
        {
            let at = self.find(k);
            if at == MAP {
                None
            } else {
                Some(&mut self.pick_mut(at).1)
            }
        }
        fn insert(&mut self, k: K, v: V) -> Option<V>
        where
            K: PartialEq,
        {
            let mut i = 0;
            while i < MAP {
                let hit = match &self.s[i] {
                    Some(e) => e.0 == k,
                    None => false,
                };
                if hit {
                    let old = self.s[i].take();
                    self.s[i] = Some((k, v));
                    return old.map(|e| e.1);
                }
                i += 1;
            }
            let mut j = 0;
            while j < MAP {
                if self.s[j].is_none() {
                    self.s[j] = Some((k, v));
                    return None;
                }
                j += 1;
            }
            super::capacity_exceeded()
        }
        fn remove<Q: ?Sized + PartialEq>(&mut self, k: &Q) -> Option<V>
        where
            K: Borrow<Q>,
        {
            let mut i = 0;
            while i < MAP {
                let hit = match &self.s[i] {
                    Some(e) => e.0.borrow() == k,
                    None => false,
                };
                if hit {
                    return self.s[i].take().map(|e| e.1);
                }
                i += 1;
            }
            None
        }
    }
    impl<K: Clone, V: Clone> Clone for Slots<K, V> {
        fn clone(&self) -> Self {
            let mut out = Slots::new();
            let mut i = 0;
            while i < MAP {
                out.s[i] = self.s[i].clone();
                i += 1;
            }
            out
        }
    }

    /// Slot-order iterator (HashMap: any order is a valid HashMap order).
    pub struct SlotIter<'a, K, V> {
        s: &'a [Option<(K, V)>; MAP],
        i: usize,
    }
    impl<'a, K, V> Iterator for SlotIter<'a, K, V> {
        type Item = (&'a K, &'a V);
        fn next(&mut self) -> Option<Self::Item> {
            while self.i < MAP {
                let i = self.i;
                self.i += 1;
                if let Some(e) = &self.s[i] {
                    return Some((&e.0, &e.1));
                }
            }
            None
        }
    }
    /// Owning slot-order iterator.
    pub struct SlotIntoIter<K, V> {
        s: [Option<(K, V)>; MAP],
        i: usize,
    }
    impl<K, V> Iterator for SlotIntoIter<K, V> {
        type Item = (K, V);
        fn next(&mut self) -> Option<(K, V)> {
            while self.i < MAP {
                let i = self.i;
                self.i += 1;
                if let Some(e) = self.s[i].take() {
                    return Some(e);
                }
            }
            None
        }
    }

    /// `HashMap` model (keys compared with `==`, iteration in slot order).
    pub struct HashMap<K, V> {
        t: Slots<K, V>,
    }
    pub mod hash_map {
        pub use super::HashMap;
    }
    impl<K: PartialEq, V> HashMap<K, V> {
        pub fn new() -> Self {
            HashMap { t: Slots::new() }
        }
        pub fn len(&self) -> usize {
            self.t.len()
        }
        pub fn is_empty(&self) -> bool {
            self.t.len() == 0
        }
        pub fn clear(&mut self) {
            self.t.clear()
        }
        pub fn get<Q: ?Sized + PartialEq>(&self, k: &Q) -> Option<&V>
        where
            K: Borrow<Q>,
        {
            self.t.get(k)
        }
        pub fn get_mut<Q: ?Sized + PartialEq>(&mut self, k: &Q) -> Option<&mut V>
        where
            K: Borrow<Q>,
        {
            self.t.get_mut(k)
        }
        pub fn contains_key<Q: ?Sized + PartialEq>(&self, k: &Q) -> bool
        where
            K: Borrow<Q>,
        {
            self.t.position(k).is_some()
        }
        pub fn insert(&mut self, k: K, v: V) -> Option<V> {
            self.t.insert(k, v)
        }
        pub fn remove<Q: ?Sized + PartialEq>(&mut self, k: &Q) -> Option<V>
        where
            K: Borrow<Q>,
        {
            self.t.remove(k)
        }
        pub fn retain<F: FnMut(&K, &mut V) -> bool>(&mut self, mut f: F) {
            let mut i = 0;
            while i < MAP {
                let keep = match &mut self.t.s[i] {
                    Some(e) => f(&e.0, &mut e.1),
                    None => true,
                };
                if !keep {
                    self.t.s[i] = None;
                }
                i += 1;
            }
        }
        pub fn entry(&mut self, k: K) -> Entry<'_, K, V> {
            Entry { map: self, key: k }
        }
        pub fn iter(&self) -> SlotIter<'_, K, V> {
            SlotIter { s: &self.t.s, i: 0 }
        }
        pub fn keys(&self) -> impl Iterator<Item = &K> {
            self.iter().map(|e| e.0)
        }
        pub fn values(&self) -> impl Iterator<Item = &V> {
            self.iter().map(|e| e.1)
        }
        pub fn values_mut(&mut self) -> impl Iterator<Item = &mut V> {
            self.t.s.iter_mut().filter_map(|e| e.as_mut().map(|e| &mut e.1))
        }
        pub fn iter_mut(&mut self) -> impl Iterator<Item = (&K, &mut V)> {
            self.t.s.iter_mut().filter_map(|e| e.as_mut().map(|e| (&e.0, &mut e.1)))
        }
        pub fn drain(&mut self) -> SlotIntoIter<K, V> {
            let old = core::mem::replace(&mut self.t, Slots::new());
            SlotIntoIter { s: old.s, i: 0 }
        }
    }
    impl<K: PartialEq, V> Extend<(K, V)> for HashMap<K, V> {
        fn extend<I: IntoIterator<Item = (K, V)>>(&mut self, iter: I) {
            for (k, v) in iter {
                self.insert(k, v);
            }
        }
    }
    impl<K: PartialEq, V> core::iter::FromIterator<(K, V)> for HashMap<K, V> {
        fn from_iter<I: IntoIterator<Item = (K, V)>>(iter: I) -> Self {
            let mut m = HashMap::new();
            for (k, v) in iter {
                m.insert(k, v);
            }
            m
        }
    }
    impl<K: PartialEq + Borrow<Q>, Q: ?Sized + PartialEq, V> core::ops::Index<&Q> for HashMap<K, V> {
        type Output = V;
        fn index(&self, k: &Q) -> &V {
            self.get(k).expect("no entry found for key")
        }
    }
    pub struct Entry<'a, K, V> {
        map: &'a mut HashMap<K, V>,
        key: K,
    }
    impl<'a, K: PartialEq, V> Entry<'a, K, V> {
        pub fn or_insert_with<F: FnOnce() -> V>(self, f: F) -> &'a mut V {
            let Entry { map, key } = self;
            let idx = match map.t.position(&key) {
                Some(i) => i,
                None => {
                    let mut j = 0;
                    let mut at = MAP;
                    while j < MAP {
                        if at == MAP && map.t.s[j].is_none() {
                            at = j;
                        }
                        j += 1;
                    }
                    if at == MAP {
                        super::capacity_exceeded();
                    }
                    map.t.s[at] = Some((key, f()));
                    at
                }
            };
            match &mut map.t.s[idx] {
                Some(e) => &mut e.1,
                None => unreachable!(),
            }
        }
        pub fn or_insert(self, v: V) -> &'a mut V {
            self.or_insert_with(|| v)
        }
        pub fn or_default(self) -> &'a mut V
        where
            V: Default,
        {
            self.or_insert_with(V::default)
        }
    }
    impl<K, V> Default for HashMap<K, V> {
        fn default() -> Self {
            HashMap { t: Slots::new() }
        }
    }
    impl<K: Clone, V: Clone> Clone for HashMap<K, V> {
        fn clone(&self) -> Self {
            HashMap { t: self.t.clone() }
        }
    }
    impl<K: core::fmt::Debug, V: core::fmt::Debug> core::fmt::Debug for HashMap<K, V> {
        fn fmt(&self, f: &mut core::fmt::Formatter<'_>) -> core::fmt::Result {
            f.debug_map().entries(SlotIter { s: &self.t.s, i: 0 }).finish()
        }
    }
    impl<K, V> IntoIterator for HashMap<K, V> {
        type Item = (K, V);
        type IntoIter = SlotIntoIter<K, V>;
        fn into_iter(self) -> Self::IntoIter {
            SlotIntoIter { s: self.t.s, i: 0 }
        }
    }
    impl<'a, K, V> IntoIterator for &'a HashMap<K, V> {
        type Item = (&'a K, &'a V);
        type IntoIter = SlotIter<'a, K, V>;
        fn into_iter(self) -> Self::IntoIter {
            SlotIter { s: &self.t.s, i: 0 }
        }
    }

    // ---------------------------------------------------------------------------------------------------------
    /// `BTreeMap` model: unordered slots, ordered iteration by on-demand selection of the next key.
    pub struct BTreeMap<K, V> {
        t: Slots<K, V>,
        /// true = the occupied slots are a prefix and their keys ascend in slot order; unbounded iteration is then positional
        /// (concrete slot references instead of a selection the solver has to resolve). Maintained conservatively.
        sorted: bool,
    }
    /// Borrowing ordered iterator over the keys inside (lo, hi), both ends movable (`DoubleEndedIterator`).
    pub struct Iter<'a, K, V> {
        s: &'a [Option<(K, V)>; MAP],
        /// exclusive lower fence: last key yielded from the front (None = use `start`)
        lo: Option<&'a K>,
        hi: Option<&'a K>,
        start: core::ops::Bound<K>,
        end: core::ops::Bound<K>,
        /// positional mode (map known to be physically sorted, no range bounds): next slot from the front / one past the back
        positional: bool,
        f: usize,
        b: usize,
    }
    impl<'a, K: Ord, V> Iter<'a, K, V> {
        fn admissible(&self, k: &K) -> bool {
            use core::ops::Bound::*;
            let above = match self.lo {
                Some(l) => k > l,
                None => match &self.start {
                    Included(a) => k >= a,
                    Excluded(a) => k > a,
                    Unbounded => true,
                },
            };
            let below = match self.hi {
                Some(h) => k < h,
                None => match &self.end {
                    Included(b) => k <= b,
                    Excluded(b) => k < b,
                    Unbounded => true,
                },
            };
            above && below
        }
    }
    impl<'a, K: Ord, V> Iter<'a, K, V> {
        /// Index of the admissible slot with the smallest (`front`) / largest key, MAP if none. Decided by comparing keys of concrete
        /// slot pairs — no accumulator that points at a "current best" entry.
        fn select(&self, front: bool) -> usize {
            let mut at = MAP;
            let mut i = 0;
            while i < MAP {
                if let Some(e) = &self.s[i] {
                    if self.admissible(&e.0) {
                        let mut extreme = true;
                        let mut j = 0;
                        while j < MAP {
                            if j != i {
                                if let Some(o) = &self.s[j] {
                                    if self.admissible(&o.0) && (if front { o.0 < e.0 } else { o.0 > e.0 }) {
                                        extreme = false;
                                    }
                                }
                            }
                            j += 1;
                        }
                        if extreme && at == MAP {
                            at = i;
                        }
                    }
                }
                i += 1;
            }
            at
        }
        fn pick(&self, at: usize) -> &'a (K, V) {
            let mut out: Option<&'a (K, V)> = None;
            let mut i = 0;
            while i < MAP {
                if let Some(e) = &self.s[i] {
                    if out.is_none() || i == at {
                        out = Some(e);
                    }
                }
                i += 1;
            }
            match out {
                Some(e) => e,
                None => unreachable!("pick on an empty map"),
            }
        }
    }
    impl<'a, K: Ord, V> Iterator for Iter<'a, K, V> {
        type Item = (&'a K, &'a V);
        fn next(&mut self) -> Option<Self::Item> {
            if self.positional {
                if self.f < self.b {
                    let i = self.f;
                    self.f += 1;
                    if let Some(e) = &self.s[i] {
                        return Some((&e.0, &e.1));
                    }
                }
                return None;
            }
            let at = self.select(true);
            if at == MAP {
                return None;
            }
            let e = self.pick(at);
            self.lo = Some(&e.0);
            Some((&e.0, &e.1))
        }
    }
    impl<'a, K: Ord, V> DoubleEndedIterator for Iter<'a, K, V> {
        fn next_back(&mut self) -> Option<Self::Item> {
            if self.positional {
                if self.f < self.b {
                    self.b -= 1;
                    if let Some(e) = &self.s[self.b] {
                        return Some((&e.0, &e.1));
                    }
                }
                return None;
            }
            let at = self.select(false);
            if at == MAP {
                return None;
            }
            let e = self.pick(at);
            self.hi = Some(&e.0);
            Some((&e.0, &e.1))
        }
    }
    /// Owning ordered iterator (ascending keys).
    pub struct IntoIterSorted<K, V> {
        s: [Option<(K, V)>; MAP],
    }
    impl<K: Ord, V> Iterator for IntoIterSorted<K, V> {
        type Item = (K, V);
        fn next(&mut self) -> Option<(K, V)> {
            let mut at = MAP;
            let mut i = 0;
            while i < MAP {
                if let Some(e) = &self.s[i] {
                    let better = if at == MAP {
                        true
                    } else {
                        match &self.s[at] {
                            Some(b) => e.0 < b.0,
                            None => true,
                        }
                    };
                    if better {
                        at = i;
                    }
                }
                i += 1;
            }
            if at == MAP {
                None
            } else {
                self.s[at].take()
            }
        }
    }
    pub mod btree_map {
        pub use super::BTreeMap;
        /// `BTreeMap::values()`
        pub struct Values<'a, K, V> {
            pub(super) it: super::Iter<'a, K, V>,
        }
        impl<'a, K: Ord, V> Iterator for Values<'a, K, V> {
            type Item = &'a V;
            fn next(&mut self) -> Option<&'a V> {
                self.it.next().map(|e| e.1)
            }
        }
        impl<'a, K: Ord, V> DoubleEndedIterator for Values<'a, K, V> {
            fn next_back(&mut self) -> Option<&'a V> {
                self.it.next_back().map(|e| e.1)
            }
        }
    }
    impl<K: Ord, V> BTreeMap<K, V> {
        pub fn new() -> Self {
            BTreeMap { t: Slots::new(), sorted: true }
        }
        pub fn len(&self) -> usize {
            self.t.len()
        }
        pub fn is_empty(&self) -> bool {
            self.t.len() == 0
        }
        pub fn clear(&mut self) {
            self.t.clear();
            self.sorted = true;
        }
        pub fn get<Q: ?Sized + Ord>(&self, k: &Q) -> Option<&V>
        where
            K: Borrow<Q>,
        {
            self.t.get(k)
        }
        pub fn get_mut<Q: ?Sized + Ord>(&mut self, k: &Q) -> Option<&mut V>
        where
            K: Borrow<Q>,
        {
            self.t.get_mut(k)
        }
        pub fn contains_key<Q: ?Sized + Ord>(&self, k: &Q) -> bool
        where
            K: Borrow<Q>,
        {
            self.t.position(k).is_some()
        }
        pub fn insert(&mut self, k: K, v: V) -> Option<V> {
            // stays "sorted" only if the key replaces an entry or is appended after the last one with a larger key
            let n = self.t.len();
            let replaces = self.t.find(&k) != MAP;
            let appends = self.sorted
                && (n == 0
                    || match &self.t.s[if n == 0 { 0 } else { n - 1 }] {
                        Some(e) => e.0 < k,
                        None => false,
                    });
            self.sorted = self.sorted && (replaces || appends);
            self.t.insert(k, v)
        }
        pub fn remove<Q: ?Sized + Ord>(&mut self, k: &Q) -> Option<V>
        where
            K: Borrow<Q>,
        {
            let n = self.t.len();
            let at = self.t.find(k);
            // removing anything but the last entry leaves a hole
            self.sorted = self.sorted && (at == MAP || at + 1 == n);
            self.t.remove(k)
        }
        pub fn iter(&self) -> Iter<'_, K, V> {
            Iter {
                s: &self.t.s,
                lo: None,
                hi: None,
                start: core::ops::Bound::Unbounded,
                end: core::ops::Bound::Unbounded,
                positional: self.sorted,
                f: 0,
                b: if self.sorted { self.t.len() } else { 0 },
            }
        }
        pub fn values(&self) -> btree_map::Values<'_, K, V> {
            btree_map::Values { it: self.iter() }
        }
        pub fn keys(&self) -> impl Iterator<Item = &K> {
            self.iter().map(|e| e.0)
        }
        /// `range` over a `RangeInclusive<K>` / `RangeFrom<K>` / ... held by the caller. std panics on an inverted range.
        pub fn range<'a, R: core::ops::RangeBounds<K> + 'a>(&'a self, range: R) -> Iter<'a, K, V>
        where
            K: Clone,
        {
            use core::ops::Bound::*;
            match (range.start_bound(), range.end_bound()) {
                (Included(a), Included(b)) | (Included(a), Excluded(b)) | (Excluded(a), Included(b)) => {
                    assert!(a <= b, "range start is greater than range end in BTreeMap")
                }
                (Excluded(a), Excluded(b)) => assert!(a < b, "range start and end are equal and excluded in BTreeMap"),
                _ => {}
            }
            let start = match range.start_bound() {
                Included(a) => Included(a.clone()),
                Excluded(a) => Excluded(a.clone()),
                Unbounded => Unbounded,
            };
            let end = match range.end_bound() {
                Included(b) => Included(b.clone()),
                Excluded(b) => Excluded(b.clone()),
                Unbounded => Unbounded,
            };
            Iter { s: &self.t.s, lo: None, hi: None, start, end, positional: false, f: 0, b: 0 }
        }
        /// Returns everything at or after `k`, keeps the rest.
        pub fn split_off<Q: ?Sized + Ord>(&mut self, k: &Q) -> BTreeMap<K, V>
        where
            K: Borrow<Q>,
        {
            let mut out = BTreeMap::new();
            out.sorted = false;
            self.sorted = false;
            let mut i = 0;
            while i < MAP {
                let moves = match &self.t.s[i] {
                    Some(e) => e.0.borrow() >= k,
                    None => false,
                };
                if moves {
                    out.t.s[i] = self.t.s[i].take();
                }
                i += 1;
            }
            out
        }
        pub fn first_key_value(&self) -> Option<(&K, &V)> {
            self.iter().next()
        }
        pub fn last_key_value(&self) -> Option<(&K, &V)> {
            self.iter().next_back()
        }
        pub fn pop_first(&mut self) -> Option<(K, V)> {
            let at = self.iter().select(true);
            if at == MAP {
                return None;
            }
            self.sorted = false;
            self.t.s[at].take()
        }
        pub fn pop_last(&mut self) -> Option<(K, V)> {
            let at = self.iter().select(false);
            if at == MAP {
                return None;
            }
            let n = self.t.len();
            self.sorted = self.sorted && at + 1 == n;
            self.t.s[at].take()
        }
        pub fn values_mut(&mut self) -> impl Iterator<Item = &mut V> {
            // unordered is enough for the in-place updates this is used for
            self.t.s.iter_mut().filter_map(|e| e.as_mut().map(|e| &mut e.1))
        }
        pub fn retain<F: FnMut(&K, &mut V) -> bool>(&mut self, mut f: F) {
            let mut i = 0;
            while i < MAP {
                let keep = match &mut self.t.s[i] {
                    Some(e) => f(&e.0, &mut e.1),
                    None => true,
                };
                if !keep {
                    self.t.s[i] = None;
                    self.sorted = false;
                }
                i += 1;
            }
        }
        /// Harness set-up only: store an entry whose key the caller guarantees to be absent (next free slot, concrete shape).
        pub fn harness_push_ascending(&mut self, k: K, v: V) {
            #[cfg(not(kani))]
            assert!(self.sorted && self.iter().next_back().map(|e| e.0 < &k).unwrap_or(true));
            let mut j = 0;
            while j < MAP {
                if self.t.s[j].is_none() {
                    self.t.s[j] = Some((k, v));
                    return;
                }
                j += 1;
            }
            super::capacity_exceeded()
        }
    }
    impl<K, V> Default for BTreeMap<K, V> {
        fn default() -> Self {
            BTreeMap { t: Slots::new(), sorted: true }
        }
    }
    impl<K: Clone, V: Clone> Clone for BTreeMap<K, V> {
        fn clone(&self) -> Self {
            BTreeMap { t: self.t.clone(), sorted: self.sorted }
        }
    }
    impl<K: core::fmt::Debug + Ord, V: core::fmt::Debug> core::fmt::Debug for BTreeMap<K, V> {
        fn fmt(&self, f: &mut core::fmt::Formatter<'_>) -> core::fmt::Result {
            f.debug_map().entries(self.iter()).finish()
        }
    }
    impl<K: Ord, V> Extend<(K, V)> for BTreeMap<K, V> {
        fn extend<I: IntoIterator<Item = (K, V)>>(&mut self, iter: I) {
            for (k, v) in iter {
                self.insert(k, v);
            }
        }
    }
    impl<K: Ord, V> core::iter::FromIterator<(K, V)> for BTreeMap<K, V> {
        fn from_iter<I: IntoIterator<Item = (K, V)>>(iter: I) -> Self {
            let mut m = BTreeMap::new();
            for (k, v) in iter {
                m.insert(k, v);
            }
            m
        }
    }
    impl<K: Ord, V> IntoIterator for BTreeMap<K, V> {
        type Item = (K, V);
        type IntoIter = IntoIterSorted<K, V>;
        fn into_iter(self) -> Self::IntoIter {
            IntoIterSorted { s: self.t.s }
        }
    }
    impl<'a, K: Ord, V> IntoIterator for &'a BTreeMap<K, V> {
        type Item = (&'a K, &'a V);
        type IntoIter = Iter<'a, K, V>;
        fn into_iter(self) -> Self::IntoIter {
            self.iter()
        }
    }
}

// =================================================================================================================
pub mod rc {
    use super::string::{bytes_cmp, String};
    use core::fmt;

    /// `Rc<str>` with value semantics: a bounded inline string (sharing is unobservable for an immutable str).
    pub struct Rc<T: ?Sized> {
        s: String,
        _p: core::marker::PhantomData<T>,
    }
    impl Rc<str> {
        fn mk(s: String) -> Self {
            Rc { s, _p: core::marker::PhantomData }
        }
    }
    impl Clone for Rc<str> {
        fn clone(&self) -> Self {
            Rc::mk(self.s.clone())
        }
    }
    impl core::ops::Deref for Rc<str> {
        type Target = str;
        #[inline]
        fn deref(&self) -> &str {
            self.s.as_str()
        }
    }
    impl AsRef<str> for Rc<str> {
        fn as_ref(&self) -> &str {
            self.s.as_str()
        }
    }
    impl core::borrow::Borrow<str> for Rc<str> {
        fn borrow(&self) -> &str {
            self.s.as_str()
        }
    }
    impl From<&str> for Rc<str> {
        fn from(s: &str) -> Self {
            Rc::mk(String::from(s))
        }
    }
    impl From<String> for Rc<str> {
        fn from(s: String) -> Self {
            Rc::mk(s)
        }
    }
    impl From<&String> for Rc<str> {
        fn from(s: &String) -> Self {
            Rc::mk(s.clone())
        }
    }
    impl From<std::string::String> for Rc<str> {
        fn from(s: std::string::String) -> Self {
            Rc::mk(String::from(s.as_str()))
        }
    }
    impl PartialEq for Rc<str> {
        fn eq(&self, other: &Self) -> bool {
            self.s == other.s
        }
    }
    impl Eq for Rc<str> {}
    impl PartialEq<str> for Rc<str> {
        fn eq(&self, other: &str) -> bool {
            self.s == *other
        }
    }
    impl PartialEq<&str> for Rc<str> {
        fn eq(&self, other: &&str) -> bool {
            self.s == **other
        }
    }
    impl PartialOrd for Rc<str> {
        fn partial_cmp(&self, other: &Self) -> Option<core::cmp::Ordering> {
            Some(bytes_cmp(self.s.as_str(), other.s.as_str(), super::cap::STR))
        }
    }
    impl Ord for Rc<str> {
        fn cmp(&self, other: &Self) -> core::cmp::Ordering {
            bytes_cmp(self.s.as_str(), other.s.as_str(), super::cap::STR)
        }
    }
    impl core::hash::Hash for Rc<str> {
        fn hash<H: core::hash::Hasher>(&self, state: &mut H) {
            self.s.as_str().hash(state)
        }
    }
    impl fmt::Debug for Rc<str> {
        fn fmt(&self, f: &mut fmt::Formatter<'_>) -> fmt::Result {
            fmt::Debug::fmt(self.s.as_str(), f)
        }
    }
    impl fmt::Display for Rc<str> {
        fn fmt(&self, f: &mut fmt::Formatter<'_>) -> fmt::Result {
            fmt::Display::fmt(self.s.as_str(), f)
        }
    }
}

// =================================================================================================================
pub mod sync {
    //! `Arc<T>`. Natively: a reference-counted box with std's observable behaviour (`get_mut` is `None` while another clone
    //! is alive — the listing-snapshot behaviour of `Listing` depends on it).
    //! Under Kani: the VALUE IS STORED INLINE in every handle and only the strong count lives in a shared heap cell.
    //! Measured reason: CBMC treats heap objects byte-wise, and three symbolic inserts into an `Arc<BTreeMap<..>>` on the heap ran
    //! out of memory. Copying the value on `clone` is observationally equivalent to sharing it, because a shared value can only be
    //! mutated through `get_mut` / `make_mut`, which refuse / detach while the count is above one — exactly as std does.
    //! (This needs `T::Store: Clone`, hence the `#[derive(Clone)]` added to `Line` in the vshim copy.)
    use super::cap;
    use super::string::BStr;
    use core::fmt;

    /// What an `Arc<T>` stores: `T` itself for sized types, a bounded string for `str`.
    pub trait Stored {
        type Store: Clone;
    }
    impl<T: Clone> Stored for T {
        type Store = T;
    }
    #[cfg(not(kani))]
    impl Stored for str {
        type Store = BStr<{ cap::ARCSTR }>;
    }
    /// Under Kani an `Arc<str>` (only used for `Error::message`) keeps the address and length of the text instead of a copy:
    /// every message in the repository is a string literal or a `&'static str` field, and 2 words instead of a 32-byte buffer
    /// per `Error` matter because errors sit inside the VM state that every harness copies around.
    #[cfg(kani)]
    #[derive(Clone, Copy)]
    pub struct StaticStr {
        ptr: *const u8,
        len: usize,
    }
    #[cfg(kani)]
    impl StaticStr {
        pub fn from_str_slice(s: &str) -> Self {
            StaticStr { ptr: s.as_ptr(), len: s.len() }
        }
        pub fn as_str(&self) -> &str {
            unsafe { core::str::from_utf8_unchecked(core::slice::from_raw_parts(self.ptr, self.len)) }
        }
    }
    #[cfg(kani)]
    impl Stored for str {
        type Store = StaticStr;
    }

    #[cfg(not(kani))]
    struct Inner<S> {
        count: usize,
        value: S,
    }
    #[cfg(not(kani))]
    pub struct Arc<T: ?Sized + Stored> {
        ptr: *mut Inner<T::Store>,
    }
    #[cfg(kani)]
    pub struct Arc<T: ?Sized + Stored> {
        count: *mut usize,
        value: T::Store,
    }

    #[cfg(not(kani))]
    impl<T: ?Sized + Stored> Arc<T> {
        fn from_store(value: T::Store) -> Self {
            Arc { ptr: Box::into_raw(Box::new(Inner { count: 1, value })) }
        }
        #[inline]
        fn store(&self) -> &T::Store {
            unsafe { &(*self.ptr).value }
        }
        #[inline]
        fn store_mut(&mut self) -> &mut T::Store {
            unsafe { &mut (*self.ptr).value }
        }
        #[inline]
        fn count_ref(&self) -> &mut usize {
            unsafe { &mut (*self.ptr).count }
        }
        fn detach(&mut self) {
            let fresh = Self::from_store(self.store().clone());
            *self = fresh;
        }
    }
    #[cfg(kani)]
    impl<T: ?Sized + Stored> Arc<T> {
        fn from_store(value: T::Store) -> Self {
            Arc { count: Box::into_raw(Box::new(1usize)), value }
        }
        #[inline]
        fn store(&self) -> &T::Store {
            &self.value
        }
        #[inline]
        fn store_mut(&mut self) -> &mut T::Store {
            &mut self.value
        }
        #[inline]
        fn count_ref(&self) -> &mut usize {
            unsafe { &mut *self.count }
        }
        fn detach(&mut self) {
            *self.count_ref() -= 1;
            self.count = Box::into_raw(Box::new(1usize));
        }
    }
    impl<T: ?Sized + Stored> Arc<T> {
        pub fn strong_count(this: &Self) -> usize {
            *this.count_ref()
        }
    }
    impl<T: Clone> Arc<T> {
        pub fn new(value: T) -> Self {
            Arc::from_store(value)
        }
        pub fn get_mut(this: &mut Self) -> Option<&mut T> {
            if *this.count_ref() == 1 {
                Some(this.store_mut())
            } else {
                None
            }
        }
        pub fn make_mut(this: &mut Self) -> &mut T {
            if *this.count_ref() != 1 {
                this.detach();
            }
            this.store_mut()
        }
    }
    #[cfg(not(kani))]
    impl<T: ?Sized + Stored> Clone for Arc<T> {
        fn clone(&self) -> Self {
            *self.count_ref() += 1;
            Arc { ptr: self.ptr }
        }
    }
    #[cfg(kani)]
    impl<T: ?Sized + Stored> Clone for Arc<T> {
        fn clone(&self) -> Self {
            *self.count_ref() += 1;
            Arc { count: self.count, value: self.value.clone() }
        }
    }
    #[cfg(not(kani))]
    impl<T: ?Sized + Stored> Drop for Arc<T> {
        fn drop(&mut self) {
            unsafe {
                (*self.ptr).count -= 1;
                if (*self.ptr).count == 0 {
                    drop(Box::from_raw(self.ptr));
                }
            }
        }
    }
    #[cfg(kani)]
    impl<T: ?Sized + Stored> Drop for Arc<T> {
        fn drop(&mut self) {
            unsafe {
                *self.count -= 1;
                if *self.count == 0 {
                    drop(Box::from_raw(self.count));
                }
            }
        }
    }
    impl<T: Clone> core::ops::Deref for Arc<T> {
        type Target = T;
        #[inline]
        fn deref(&self) -> &T {
            self.store()
        }
    }
    impl core::ops::Deref for Arc<str> {
        type Target = str;
        #[inline]
        fn deref(&self) -> &str {
            self.store().as_str()
        }
    }
    impl<T: Default + Clone> Default for Arc<T> {
        fn default() -> Self {
            Arc::new(T::default())
        }
    }
    impl<T: Clone> From<T> for Arc<T> {
        fn from(v: T) -> Self {
            Arc::new(v)
        }
    }
    #[cfg(not(kani))]
    impl From<&str> for Arc<str> {
        fn from(s: &str) -> Self {
            Arc::from_store(BStr::from_str_slice(s))
        }
    }
    #[cfg(kani)]
    impl From<&str> for Arc<str> {
        fn from(s: &str) -> Self {
            Arc::from_store(StaticStr::from_str_slice(s))
        }
    }
    impl<T: fmt::Debug + Clone> fmt::Debug for Arc<T> {
        fn fmt(&self, f: &mut fmt::Formatter<'_>) -> fmt::Result {
            fmt::Debug::fmt(&**self, f)
        }
    }
    impl fmt::Debug for Arc<str> {
        fn fmt(&self, f: &mut fmt::Formatter<'_>) -> fmt::Result {
            fmt::Debug::fmt(&**self, f)
        }
    }
    impl fmt::Display for Arc<str> {
        fn fmt(&self, f: &mut fmt::Formatter<'_>) -> fmt::Result {
            fmt::Display::fmt(&**self, f)
        }
    }
    impl<T: PartialEq + Clone> PartialEq for Arc<T> {
        fn eq(&self, other: &Self) -> bool {
            **self == **other
        }
    }
    unsafe impl<T: ?Sized + Stored> Send for Arc<T> {}
    unsafe impl<T: ?Sized + Stored> Sync for Arc<T> {}
}

pub mod prelude {
    pub use super::string::{String, VStr, VToString};
    pub use super::vec::{BStore, BVec, Vec};
}
