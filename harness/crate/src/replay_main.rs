//! Native replay of one harness on recorded solver values: `replay <harness> <values-file>`.
//! exit 0 = harness body completed (no violation on these values); 101 = panic (violation reproduced);
//! 3 = recorded values do not satisfy the harness assumptions; 4 = misaligned values; 5 = unknown harness.
#[cfg(verif_replay)]
fn main() {
    let args: Vec<String> = std::env::args().collect();
    if args.len() < 3 {
        eprintln!("usage: replay <harness> <values-file>");
        std::process::exit(2);
    }
    let text = std::fs::read_to_string(&args[2]).expect("values file");
    basic::vk::load(&text);
    let name = args[1].clone();
    // the bounded container models keep everything inline: run on a thread with a very large stack
    let t = std::thread::Builder::new().stack_size(8 << 30).spawn(move || basic::verif_dispatch(&name)).expect("spawn");
    match t.join() {
        Ok(true) => {}
        Ok(false) => {
            eprintln!("unknown harness {}", args[1]);
            std::process::exit(5);
        }
        Err(_) => {
            eprintln!("VK-REPLAY-PANIC (see the panic message above)");
            std::process::exit(101);
        }
    }
    println!("VK-REPLAY-DONE {}", args[1]);
}
#[cfg(not(verif_replay))]
fn main() {}
