//! `vk` — one harness body, two back ends.
//!
//! * `cfg(kani)`: every `any_*` is a fresh solver variable (`kani::any()` on a primitive integer),
//!   `assume` constrains it, `vk_check!` is the assertion CBMC must discharge for all values.
//! * native (`cfg(verif_replay)` / tests): `any_*` pops the next recorded byte vector of a solver
//!   counterexample (one vector per `kani::any()` call, little endian — the `concrete_vals` Kani prints
//!   with `--concrete-playback=print`), `assume(false)` ends the run with exit code 3 ("replay invalid"),
//!   `vk_check!(false, ..)` panics — that panic (or any panic / overflow / hang of the code under test) is what
//!   the runner calls a reproduced violation.
//!
//! Only primitive integers go through the back end so that the order and width of recorded values is
//! exactly the order of `any_*` calls; bool / float / char are derived from them here.

#![allow(dead_code)]

#[cfg(kani)]
mod imp {
    #[inline(always)]
    pub fn u8_() -> u8 {
        kani::any()
    }
    #[inline(always)]
    pub fn u16_() -> u16 {
        kani::any()
    }
    #[inline(always)]
    pub fn u32_() -> u32 {
        kani::any()
    }
    #[inline(always)]
    pub fn u64_() -> u64 {
        kani::any()
    }
    #[inline(always)]
    pub fn assume(c: bool) {
        kani::assume(c)
    }
}

#[cfg(not(kani))]
mod imp {
    use std::collections::VecDeque;
    use std::sync::Mutex;
    pub static VALS: Mutex<VecDeque<Vec<u8>>> = Mutex::new(VecDeque::new());
    fn next(n: usize) -> u64 {
        let v = VALS.lock().unwrap().pop_front();
        let mut out = 0u64;
        match v {
            Some(bytes) => {
                if bytes.len() != n {
                    eprintln!("VK-REPLAY-MISALIGNED want {} bytes got {}", n, bytes.len());
                    std::process::exit(4);
                }
                for (i, b) in bytes.iter().enumerate() {
                    out |= (*b as u64) << (8 * i);
                }
            }
            None => {
                eprintln!("VK-REPLAY-EXHAUSTED (value defaults to 0)");
            }
        }
        out
    }
    pub fn u8_() -> u8 {
        next(1) as u8
    }
    pub fn u16_() -> u16 {
        next(2) as u16
    }
    pub fn u32_() -> u32 {
        next(4) as u32
    }
    pub fn u64_() -> u64 {
        next(8)
    }
    pub fn assume(c: bool) {
        if !c {
            eprintln!("VK-ASSUME-FALSE: the recorded values do not satisfy the harness assumptions");
            std::process::exit(3);
        }
    }
    /// Load recorded values: one line per `any` call, bytes in decimal separated by blanks.
    pub fn load(text: &str) {
        let mut q = VALS.lock().unwrap();
        q.clear();
        for line in text.lines() {
            let line = line.trim();
            if line.is_empty() || line.starts_with('#') {
                continue;
            }
            q.push_back(line.split_whitespace().map(|t| t.parse::<u8>().expect("byte")).collect());
        }
    }
}

#[cfg(not(kani))]
pub use imp::load;

pub fn any_u8() -> u8 {
    imp::u8_()
}
pub fn any_u16() -> u16 {
    imp::u16_()
}
pub fn any_i16() -> i16 {
    imp::u16_() as i16
}
pub fn any_u32() -> u32 {
    imp::u32_()
}
pub fn any_i32() -> i32 {
    imp::u32_() as i32
}
pub fn any_u64() -> u64 {
    imp::u64_()
}
pub fn any_usize() -> usize {
    imp::u64_() as usize
}
pub fn any_bool() -> bool {
    imp::u8_() & 1 == 1
}
pub fn any_f32() -> f32 {
    f32::from_bits(imp::u32_())
}
pub fn any_f64() -> f64 {
    f64::from_bits(imp::u64_())
}
/// A value in `0..n` (n ≤ 256).
pub fn any_below(n: u8) -> u8 {
    let v = imp::u8_();
    imp::assume(v < n);
    v
}
pub fn assume(c: bool) {
    imp::assume(c)
}
#[cfg(kani)]
pub fn known_active(listed: bool) -> bool {
    listed
}
#[cfg(not(kani))]
pub fn known_active(listed: bool) -> bool {
    listed && std::env::var_os("VK_NO_EXCLUDE").is_none()
}

/// Stub for `core::mem::swap` under Kani (`-Z stubbing`): the same exchange done with three typed moves. std's version
/// swaps byte chunks, after which CBMC can no longer read an enum discriminant back as a constant (measured: the state
/// swap in `Runtime::execute` made a one-path harness explore the whole instruction dispatcher and run out of time).
pub fn typed_swap<T>(a: &mut T, b: &mut T) {
    unsafe {
        let t = core::ptr::read(a);
        core::ptr::write(a, core::ptr::read(b));
        core::ptr::write(b, t);
    }
}

/// Stubs for core's `memchr` / `memrchr` (used by `str::find(char)`, `ends_with(char)`, `split(char)` ...): the same result
/// by a byte loop. core's versions scan word-sized chunks after aligning the pointer, which CBMC cannot follow on symbolic text.
pub fn naive_memchr(x: u8, text: &[u8]) -> Option<usize> {
    let mut i = 0;
    while i < text.len() {
        if text[i] == x {
            return Some(i);
        }
        i += 1;
    }
    None
}
/// Stub for core's `str::chars().count()` fast path (word-at-a-time counting after `align_to`): count the non-continuation bytes.
pub fn naive_count_chars(s: &str) -> usize {
    let b = s.as_bytes();
    let mut n = 0;
    let mut i = 0;
    while i < b.len() {
        if (b[i] as i8) >= -0x40 {
            n += 1;
        }
        i += 1;
    }
    n
}
pub fn naive_memrchr(x: u8, text: &[u8]) -> Option<usize> {
    let mut i = text.len();
    while i > 0 {
        i -= 1;
        if text[i] == x {
            return Some(i);
        }
    }
    None
}

/// The assertion the solver must discharge for all values (Kani requires a literal message);
/// natively a panic, which the replay runner reports as a reproduced violation.
#[macro_export]
macro_rules! vk_check {
    ($cond:expr, $msg:literal) => {{
        #[cfg(kani)]
        kani::assert($cond, $msg);
        #[cfg(not(kani))]
        {
            if !($cond) {
                panic!("VK-CHECK-FAILED: {}", $msg);
            }
        }
    }};
}

/// Exclusion of a *listed* known finding: `vk::assume(!vk_known!(ID, cond))`. `ID` is a generated constant that is
/// true only while /verif/known_findings.json lists the finding as open, so a fixed or unlisted finding excludes nothing.
/// In native replays `VK_NO_EXCLUDE=1` switches every exclusion off (used to confirm that a known finding still reproduces).
#[macro_export]
macro_rules! vk_known {
    ($id:ident, $cond:expr) => {
        ($crate::vk::known_active($crate::known_gen::$id) && ($cond))
    };
}

/// Reachability witness (vacuity guard): under Kani a `cover` property that the runner requires to be
/// SATISFIED; natively nothing.
#[macro_export]
macro_rules! vk_cover {
    ($cond:expr, $msg:literal) => {{
        #[cfg(kani)]
        kani::cover!($cond, $msg);
        #[cfg(not(kani))]
        {
            let _ = $cond;
        }
    }};
}

/// Declares a harness: `#[kani::proof]` under Kani, a plain function for the native replay dispatcher.
#[macro_export]
macro_rules! vk_harness {
    ($name:ident, $body:block) => {
        #[cfg_attr(kani, kani::proof)]
        #[cfg_attr(kani, kani::stub(std::mem::swap, crate::vk::typed_swap))]
        #[cfg_attr(kani, kani::stub(core::slice::memchr::memchr, crate::vk::naive_memchr))]
        #[cfg_attr(kani, kani::stub(core::slice::memchr::memrchr, crate::vk::naive_memrchr))]
        #[cfg_attr(kani, kani::stub(core::str::count::count_chars, crate::vk::naive_count_chars))]
        #[allow(dead_code)]
        pub(crate) fn $name() $body
    };
}
